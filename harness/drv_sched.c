/* drv_sched: drives real threads through the yield points of the library (guard
 * LIBERASURECODE_VERIF) along TLC-generated schedules and records the protocol
 * steps each thread performs, with the locks it really holds (C18).
 *
 *   drv_sched <schedules.txt> <events.ndjson>
 *
 * schedules.txt, one scenario per line:   <pre> <ncreators> <nshared> <free> : t t t ...
 *   pre      1: an RS instance (descriptor 1) exists before the threads start and <nshared> threads use it
 *   free     1: no scheduler, threads run freely (events are still ordered by the log mutex, taken inside
 *               the hook, i.e. while the protecting lock of the step is held)
 *   t t t    schedule prefix: the thread to run for one step (from its current yield point to the next)
 * After the prefix every thread runs freely to completion.
 * Creator thread (tid 1..nc): create RS(2,1) -> encode -> encode_cleanup -> destroy.
 * Shared user (tid nc+1..):   encode -> encode_cleanup through descriptor 1.
 * An event is logged AFTER the step it names and BEFORE the lock protecting it is released. */
#define _GNU_SOURCE
#include <stdio.h>
#include <stdlib.h>
#include <string.h>
#include <stdint.h>
#include <pthread.h>
#include <time.h>
#include <errno.h>
#include <erasurecode.h>

extern void (*liberasurecode_verif_yield)(const char *point);
extern int verif_held(void);
#include <dlfcn.h>

#define MAXT 16
static FILE *evf;
static pthread_mutex_t mu = PTHREAD_MUTEX_INITIALIZER;     /* protects the log and the scheduler state */
static pthread_cond_t cv = PTHREAD_COND_INITIALIZER;
static __thread int my_tid;                                  /* 0: not a scenario thread (events ignored) */
static int controlled;                                       /* threads park at yield points until granted */
static int granted;                                          /* tid allowed to perform one step (0: none) */
static int parked[MAXT], finished[MAXT], steps[MAXT];
static long seq;
static int shared_desc;
static int result_err[MAXT];

static void log_event(int tid, const char *p, int held)
{
    fprintf(evf, "{\"e\":\"Y\",\"t\":%d,\"p\":\"%s\",\"h\":%d,\"seq\":%ld}\n", tid, p, held, ++seq);
}

static int is_release(const char *p)
{
    return !strcmp(p, "l_unlock") || !strcmp(p, "c_un") || !strcmp(p, "d_un") || !strcmp(p, "c_gf4") || !strcmp(p, "d_gf1");
}
static void yield_cb(const char *point)
{
    int tid = my_tid, held, n = (int)strlen(point), rel_point;
    if (!tid) return;
    held = verif_held();
    /* lookups nested in the descriptor allocator run under the exclusive lock: part of the c_desc step */
    if ((held & 2) && !strncmp(point, "l_", 2)) return;
    rel_point = n > 4 && !strcmp(point + n - 4, "_rel");     /* reached right after a lock release: park only */
    pthread_mutex_lock(&mu);
    if (!rel_point) { log_event(tid, point, held); steps[tid]++; }
    /* a releasing step is logged while the lock is still held, but the thread parks only after the release */
    if (controlled && !(is_release(point) && !rel_point)) {
        if (granted == tid) granted = 0;
        parked[tid] = 1;
        pthread_cond_broadcast(&cv);
        while (controlled && granted != tid) pthread_cond_wait(&cv, &mu);
        parked[tid] = 0;
    }
    pthread_mutex_unlock(&mu);
}

static void wait_start(int tid)
{
    /* a thread's first step also needs a grant */
    pthread_mutex_lock(&mu);
    parked[tid] = 1;
    pthread_cond_broadcast(&cv);
    while (controlled && granted != tid) pthread_cond_wait(&cv, &mu);
    parked[tid] = 0;
    pthread_mutex_unlock(&mu);
}
static void mark_done(int tid)
{
    pthread_mutex_lock(&mu);
    finished[tid] = 1;
    if (granted == tid) granted = 0;
    pthread_cond_broadcast(&cv);
    pthread_mutex_unlock(&mu);
}

static int one_encode(int d, int k, int m, int tid)
{
    char data[64], **ed = NULL, **ep = NULL, *frags[8], *out = NULL; uint64_t flen = 0, olen = 0; int i, rc, n = 0;
    for (i = 0; i < 64; i++) data[i] = (char)(i * 7 + tid);
    rc = liberasurecode_encode(d, data, 64, &ed, &ep, &flen);
    if (rc != 0) return 1;
    /* sequential expectation: decoding from the parity side gives the data back (checked without the library's
     * registry: only after the protocol part, with the hook silenced, so that the trace stays the modelled one) */
    my_tid = 0;
    for (i = 1; i < k + m; i++) frags[n++] = i < k ? ed[i] : ep[i - k];
    rc = liberasurecode_decode(d, frags, n, flen, 0, &out, &olen);
    if (rc != 0 || olen != 64 || memcmp(out, data, 64) != 0) rc = 2; else { liberasurecode_decode_cleanup(d, out); rc = 0; }
    my_tid = tid;
    if (liberasurecode_encode_cleanup(d, ed, ep) != 0) return 3;
    return rc;
}
static void *creator(void *arg)
{
    int tid = (int)(long)arg, d; struct ec_args a;
    my_tid = tid;
    wait_start(tid);
    memset(&a, 0, sizeof a); a.k = 2; a.m = 1; a.hd = 1; a.ct = CHKSUM_NONE;
    d = liberasurecode_instance_create(EC_BACKEND_LIBERASURECODE_RS_VAND, &a);
    if (d <= 0) result_err[tid] = 10;
    else {
        pthread_mutex_lock(&mu); fprintf(evf, "{\"e\":\"Desc\",\"t\":%d,\"d\":%d}\n", tid, d); pthread_mutex_unlock(&mu);
        result_err[tid] = one_encode(d, 2, 1, tid);
        if (liberasurecode_instance_destroy(d) != 0) result_err[tid] = 11;
    }
    my_tid = 0;
    mark_done(tid);
    return NULL;
}
static void *shared_user(void *arg)
{
    int tid = (int)(long)arg;
    my_tid = tid;
    wait_start(tid);
    result_err[tid] = one_encode(shared_desc, 4, 2, tid);
    my_tid = 0;
    mark_done(tid);
    return NULL;
}

static int wait_step(int tid, int ms)
{
    /* wait until thread tid has performed its granted step (parked again) or finished */
    struct timespec ts; int rc = 0;
    clock_gettime(CLOCK_REALTIME, &ts);
    ts.tv_sec += ms / 1000; ts.tv_nsec += (ms % 1000) * 1000000L;
    if (ts.tv_nsec >= 1000000000L) { ts.tv_sec++; ts.tv_nsec -= 1000000000L; }
    while (granted == tid && !finished[tid] && rc == 0) rc = pthread_cond_timedwait(&cv, &mu, &ts);
    return (granted == tid && !finished[tid]) ? -1 : 0;
}

int main(int argc, char **argv)
{
    FILE *sf; char *line = NULL; size_t cap = 0; long scn = 0, diverged = 0, errs = 0;
    if (argc < 3) { fprintf(stderr, "usage: drv_sched schedules events\n"); return 2; }
    sf = fopen(argv[1], "r"); evf = fopen(argv[2], "w");
    if (!sf || !evf) { perror("open"); return 2; }
    while (getline(&line, &cap, sf) > 0) {
        int pre, nc, ns, fr, n, i, sched[4096], ns_len = 0, t; char *p = line, *colon; pthread_t th[MAXT];
        if (sscanf(p, "%d %d %d %d%n", &pre, &nc, &ns, &fr, &n) < 4) continue;
        colon = strchr(p, ':');
        if (colon) { char *q = colon + 1, *e; for (;;) { long v = strtol(q, &e, 10); if (e == q) break; if (ns_len < 4096) sched[ns_len++] = (int)v; q = e; } }
        if (nc > 9 || ns > 4) continue;
        scn++;
        /* fresh library state */
        liberasurecode_verif_yield = NULL;
        { int *nx = dlsym(RTLD_DEFAULT, "next_backend_desc"); if (nx) *nx = 0; }   /* by name: survives a rename */
        shared_desc = 0;
        if (pre) {
            struct ec_args a; memset(&a, 0, sizeof a); a.k = 4; a.m = 2; a.hd = 2; a.ct = CHKSUM_NONE;
            shared_desc = liberasurecode_instance_create(EC_BACKEND_LIBERASURECODE_RS_VAND, &a);
        }
        fprintf(evf, "{\"e\":\"Scn\",\"pre\":%d,\"nc\":%d,\"ns\":%d,\"free\":%d,\"shared\":%d}\n", pre, nc, pre ? ns : 0, fr, shared_desc);
        memset(parked, 0, sizeof parked); memset(finished, 0, sizeof finished); memset(steps, 0, sizeof steps); memset(result_err, 0, sizeof result_err);
        granted = 0; controlled = !fr;
        liberasurecode_verif_yield = yield_cb;
        {
            int tids[MAXT], q;
            n = 0;
            for (i = 1; i <= nc; i++) tids[n++] = i;
            for (i = 1; i <= (pre ? ns : 0); i++) tids[n++] = 10 + i;       /* shared users: thread ids 11, 12, ... */
            for (q = 0; q < n; q++) pthread_create(&th[q], NULL, tids[q] <= 10 ? creator : shared_user, (void *)(long)tids[q]);
            if (controlled) {
                int bad = 0;
                pthread_mutex_lock(&mu);
                /* all threads parked at their start */
                for (;;) { int all = 1; for (q = 0; q < n; q++) if (!parked[tids[q]] && !finished[tids[q]]) all = 0; if (all) break; pthread_cond_wait(&cv, &mu); }
                for (i = 0; i < ns_len && !bad; i++) {
                    int known = 0;
                    t = sched[i];
                    for (q = 0; q < n; q++) if (tids[q] == t) known = 1;
                    if (!known || finished[t]) continue;
                    granted = t;
                    pthread_cond_broadcast(&cv);
                    if (wait_step(t, 1500) != 0) {
                        /* the code blocks where the model says the step is enabled (or the model has steps the code lacks) */
                        fprintf(evf, "{\"e\":\"Diverge\",\"t\":%d,\"at\":%d}\n", t, i);
                        diverged++; bad = 1;
                    }
                }
                controlled = 0; granted = 0;                 /* run to completion freely */
                pthread_cond_broadcast(&cv);
                pthread_mutex_unlock(&mu);
            }
            for (q = 0; q < n; q++) pthread_join(th[q], NULL);
        }
        liberasurecode_verif_yield = NULL;
        for (i = 1; i < MAXT; i++) if (result_err[i]) { errs++; fprintf(evf, "{\"e\":\"ResultErr\",\"t\":%d,\"code\":%d}\n", i, result_err[i]); }
        if (pre) liberasurecode_instance_destroy(shared_desc);
        fprintf(evf, "{\"e\":\"End\"}\n");
    }
    fclose(evf);
    printf("scenarios=%ld diverged=%ld result_errors=%ld\n", scn, diverged, errs);
    return 0;
}
