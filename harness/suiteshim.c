/* suiteshim: records the repository's OWN test programs as API histories.
 *
 * test/liberasurecode_test.c (and test/libec_slap.c) are compiled unchanged, from the tree under test, with
 *   -Dliberasurecode_instance_create=vs_instance_create ... (one -D per public entry point)  -Dfree=vs_free
 * so that every public call of the test goes through the wrappers below.  Each wrapper calls the real entry point and
 * writes, at its return, one event in the format of harness/ecdrive_hist.inc (HCreate, HDestroy, HEncode, ...), which
 * spec/TraceLibec.tla validates against the Libec state machine: registry and descriptor rules, refusal classes,
 * ownership of outputs with the allocation ledger, and - whenever the fragments a test hands to decode/reconstruct are
 * byte-identical to fragments of a stripe this shim saw encode produce - the round-trip and fidelity rules.
 * Calls whose inputs the shim cannot identify (a test corrupted or fabricated a fragment) are logged as HAny: only the
 * ledger rules apply to them.  The shim never changes an argument or a result. */
#define _GNU_SOURCE
#include <stdio.h>
#include <stdlib.h>
#include <string.h>
#include <stdint.h>
#include <dlfcn.h>
#include <pthread.h>
#include <erasurecode.h>
#include <erasurecode_backend.h>
#include <erasurecode_helpers.h>

extern long verif_live, verif_foreign_free;

static FILE *evf;
static pthread_mutex_t mu = PTHREAD_MUTEX_INITIALIZER;
static char evbuf[1 << 16]; static size_t evlen; static int ev_first;
static int *p_next, **p_log;
static long last_l1, ext_frees;     /* blocks of the library released by the test itself between two calls */
extern int verif_owns(void *p); extern void verif_free(void *p);
/* the test's own free(): blocks of the library go through the ledger, the test's own blocks straight to libc */
void vs_free(void *p) { if (verif_owns(p)) verif_free(p); else free(p); }

static void ev_putc(char c) { if (evlen + 1 < sizeof evbuf) evbuf[evlen++] = c; }
static void ev_puts(const char *s) { while (*s) ev_putc(*s++); }
static void ev_key(const char *k) { if (!ev_first) ev_putc(','); ev_first = 0; ev_putc('"'); ev_puts(k); ev_puts("\":"); }
static void ev_begin(const char *name) { evlen = 0; ev_first = 1; ev_putc('{'); ev_key("e"); ev_putc('"'); ev_puts(name); ev_putc('"'); }
static void ev_int(const char *k, long long v)
{
    char b[32];
    if (v > 2147483647LL) v = 2147483647LL;
    if (v < -2147483647LL) v = -2147483647LL;
    ev_key(k); snprintf(b, sizeof b, "%lld", v); ev_puts(b);
}
static void ev_arr(const char *k, const int *a, int n)
{
    char b[16]; int i;
    ev_key(k); ev_putc('[');
    for (i = 0; i < n; i++) { if (i) ev_putc(','); snprintf(b, sizeof b, "%d", a[i]); ev_puts(b); }
    ev_putc(']');
}
static void ev_end(void) { ev_putc('}'); ev_putc('\n'); if (evf) { fwrite(evbuf, 1, evlen, evf); fflush(evf); } }
static int gf_flag(void) { return p_log ? (*p_log != NULL) : -1; }
static int next_val(void) { return p_next ? *p_next : 0; }

static void shim_init(void)
{
    const char *p;
    if (evf) return;
    p = getenv("VERIF_SUITE_EVENTS");
    evf = fopen(p ? p : "/dev/null", "w");
    p_next = dlsym(RTLD_DEFAULT, "next_backend_desc");
    p_log = dlsym(RTLD_DEFAULT, "log_table");
    last_l1 = verif_live;
    ev_begin("Reset"); ev_int("hn", p_next != NULL); ev_int("l", verif_live); ev_int("gf", gf_flag() == 1); ev_int("next", next_val()); ev_end();
}

/* ---- what encode produced: pristine copies, to recognise fragments later ---- */
#define NST 24
#define MAXF 64
struct stripe {
    int used, T, desc, be, k, m, hd, ct, owed; long ext0;
    char **d, **p; uint64_t flen, len; unsigned char *data; unsigned char *frag[MAXF];
};
static struct stripe st[NST];
static int nextT = 1, nextU = 1;
#define NOUT 64
static struct { char *p; int U, owed; } outs[NOUT];

static void stripe_drop(struct stripe *s)
{
    int i;
    for (i = 0; i < MAXF; i++) { free(s->frag[i]); s->frag[i] = NULL; }
    free(s->data); memset(s, 0, sizeof *s);
}
static struct stripe *stripe_new(void)
{
    int i, best = 0;
    for (i = 0; i < NST; i++) if (!st[i].used) return &st[i];
    for (i = 1; i < NST; i++) if (st[i].T < st[best].T) best = i;       /* forget the oldest */
    stripe_drop(&st[best]);
    return &st[best];
}
static int frag_idx(const char *f) { int v; memcpy(&v, f, 4); return v; }
/* a test may hand the library a buffer shorter than the length it claims (negative tests): the shim only looks at
 * memory AddressSanitizer knows to be addressable */
void *__asan_region_is_poisoned(void *beg, size_t size) __attribute__((weak));
static int readable(const void *p, size_t n)
{
    if (!p) return 0;
    if (!__asan_region_is_poisoned) return 0;
    return __asan_region_is_poisoned((void *)p, n) == NULL;
}
/* all fragments byte-identical to fragments of one remembered stripe? */
static struct stripe *identify(char **frags, int n, uint64_t flen, int *idx)
{
    int s, i;
    if (!frags || n <= 0 || n > 2 * MAXF) return NULL;
    if (flen < 80 || !readable(frags, n * sizeof(char *))) return NULL;
    for (i = 0; i < n; i++) if (!readable(frags[i], flen)) return NULL;
    for (s = NST - 1; s >= 0; s--) {
        struct stripe *t = &st[s]; int ok = 1;
        if (!t->used || t->flen != flen) continue;
        for (i = 0; i < n && ok; i++) {
            int x = frag_idx(frags[i]);
            if (x < 0 || x >= t->k + t->m || memcmp(frags[i], t->frag[x], flen) != 0) ok = 0; else idx[i] = x;
        }
        if (ok) return t;
    }
    return NULL;
}
static void ev_instcfg(int x)
{
    ec_backend_t inst = liberasurecode_backend_instance_get_by_desc(x);
    if (inst) { ev_int("ibe", inst->common.id); ev_int("ik", inst->args.uargs.k); ev_int("im", inst->args.uargs.m);
                ev_int("ihd", inst->args.uargs.hd); ev_int("ict", inst->args.uargs.ct); }
    else ev_int("ibe", -1);
}
/* the tests inject backend failures themselves by replacing entries of a backend's operation table: such calls are
 * marked, the model then expects no particular result class from them (the ledger rules still apply) */
static struct ec_backend_op_stubs ops_snap[EC_BACKENDS_MAX]; static int ops_have[EC_BACKENDS_MAX];
static void ops_remember(int d)
{
    ec_backend_t inst = liberasurecode_backend_instance_get_by_desc(d);
    if (inst && inst->common.id < EC_BACKENDS_MAX && !ops_have[inst->common.id] && inst->common.ops) {
        memcpy(&ops_snap[inst->common.id], inst->common.ops, sizeof ops_snap[0]); ops_have[inst->common.id] = 1;
    }
}
static int ops_stubbed(int d)
{
    ec_backend_t inst = liberasurecode_backend_instance_get_by_desc(d);
    return inst && inst->common.id < EC_BACKENDS_MAX && ops_have[inst->common.id] && inst->common.ops &&
           memcmp(&ops_snap[inst->common.id], inst->common.ops, sizeof ops_snap[0]) != 0;
}
static void ev_cfg(struct stripe *t) { ev_int("be", t->be); ev_int("k", t->k); ev_int("m", t->m); ev_int("hd", t->hd); ev_int("ct", t->ct); }
static void h_pre(const char *name, int x)
{
    if (verif_live != last_l1) ext_frees++;
    ev_begin(name); ev_int("x", x); ev_int("l0", verif_live); ev_int("armed", 0); ev_int("stubbed", ops_stubbed(x));
}
static void h_post(int rc, long ff0)
{
    ev_int("rc", rc); ev_int("l1", verif_live); ev_int("ff", verif_foreign_free - ff0); ev_int("fired", 0); ev_int("afail", 0);
    last_l1 = verif_live;
}

/* the mutex is held across the real call: calls are serialised, so the recorded order is the order of effect */

int vs_backend_available(const ec_backend_id_t be)
{
    long ff0 = verif_foreign_free; int r;
    pthread_mutex_lock(&mu); shim_init();
    h_pre("HAvail", (int)be);
    r = liberasurecode_backend_available(be);
    h_post(r, ff0); ev_end();
    pthread_mutex_unlock(&mu);
    return r;
}
int vs_instance_create(const ec_backend_id_t id, struct ec_args *args)
{
    long ff0 = verif_foreign_free; int d;
    pthread_mutex_lock(&mu); shim_init();
    h_pre("HCreate", 0); ev_int("slot", 0);
    ev_int("be", (int)id); ev_int("k", args ? args->k : 0); ev_int("m", args ? args->m : 0); ev_int("hd", args ? args->hd : 0);
    ev_int("ct", args ? (int)args->ct : 0); ev_int("w", args ? args->w : 0); ev_int("nullargs", args == NULL);
    ev_int("next0", next_val());
    d = liberasurecode_instance_create(id, args);
    h_post(d, ff0); ev_int("gf", gf_flag()); ev_int("next1", next_val());
    if (d > 0) { ev_instcfg(d); ops_remember(d); }
    ev_end();
    pthread_mutex_unlock(&mu);
    return d;
}
int vs_instance_destroy(int desc)
{
    long ff0 = verif_foreign_free; int rc;
    pthread_mutex_lock(&mu); shim_init();
    h_pre("HDestroy", desc);
    rc = liberasurecode_instance_destroy(desc);
    h_post(rc, ff0); ev_int("gf", gf_flag()); ev_end();
    pthread_mutex_unlock(&mu);
    return rc;
}
int vs_encode(int desc, const char *orig_data, uint64_t orig_data_size, char ***encoded_data, char ***encoded_parity, uint64_t *fragment_len)
{
    long ff0 = verif_foreign_free; int rc, T, i, nullmask;
    ec_backend_t inst;
    pthread_mutex_lock(&mu); shim_init();
    T = nextT++;
    nullmask = (orig_data ? 0 : 1) | (encoded_data ? 0 : 2) | (encoded_parity ? 0 : 4) | (fragment_len ? 0 : 8);
    h_pre("HEncode", desc); ev_int("T", T); ev_int("len", (long long)orig_data_size); ev_int("nullmask", nullmask); ev_int("outs", 0);
    ev_instcfg(desc);
    rc = liberasurecode_encode(desc, orig_data, orig_data_size, encoded_data, encoded_parity, fragment_len);
    h_post(rc, ff0);
    inst = liberasurecode_backend_instance_get_by_desc(desc);
    if (rc == 0 && (!encoded_data || !encoded_parity || !fragment_len || !*encoded_data || !*encoded_parity)) ev_int("nullout", 1);
    else if (rc == 0 && inst && inst->args.uargs.k + inst->args.uargs.m <= MAXF) {
        struct stripe *t = stripe_new();
        t->used = 1; t->T = T; t->desc = desc; t->owed = 1; t->ext0 = ext_frees;
        t->be = inst->common.id; t->k = inst->args.uargs.k; t->m = inst->args.uargs.m; t->hd = inst->args.uargs.hd; t->ct = inst->args.uargs.ct;
        t->d = *encoded_data; t->p = *encoded_parity; t->flen = *fragment_len; t->len = orig_data_size;
        t->data = malloc(orig_data_size + 1); memcpy(t->data, orig_data, orig_data_size);
        for (i = 0; i < t->k + t->m; i++) {
            char *f = i < t->k ? t->d[i] : t->p[i - t->k];
            t->frag[i] = malloc(t->flen + 1); memcpy(t->frag[i], f, t->flen);
        }
        ev_int("flen", (long long)t->flen);
    }
    ev_end();
    pthread_mutex_unlock(&mu);
    return rc;
}
int vs_encode_cleanup(int desc, char **encoded_data, char **encoded_parity)
{
    long ff0 = verif_foreign_free; int rc, i, nullmask; struct stripe *t = NULL;
    pthread_mutex_lock(&mu); shim_init();
    for (i = 0; i < NST; i++) if (st[i].used && st[i].owed && st[i].d == encoded_data && st[i].p == encoded_parity && encoded_data) t = &st[i];
    nullmask = (encoded_data ? 0 : 1) | (encoded_parity ? 0 : 2);
    if (t || nullmask == 3) {
        /* had = 2: the test released part of the stripe itself in between (no exact accounting then) */
        h_pre("HEncClean", desc); ev_int("T", t ? t->T : 0); ev_int("nullmask", nullmask);
        ev_int("had", t == NULL ? 0 : (t->ext0 == ext_frees ? 1 : 2));
    } else h_pre("HAny", desc);
    rc = liberasurecode_encode_cleanup(desc, encoded_data, encoded_parity);
    h_post(rc, ff0); ev_end();
    if (t && rc == 0) t->owed = 0;          /* the pristine copies stay: tests decode from their own copies later */
    pthread_mutex_unlock(&mu);
    return rc;
}
int vs_decode(int desc, char **available_fragments, int num_fragments, uint64_t fragment_len, int force_metadata_checks,
              char **out_data, uint64_t *out_data_len)
{
    long ff0 = verif_foreign_free; int rc, idx[2 * MAXF], nullmask, U, i; struct stripe *t;
    pthread_mutex_lock(&mu); shim_init();
    t = identify(available_fragments, num_fragments, fragment_len, idx);
    nullmask = (available_fragments ? 0 : 1) | (out_data ? 0 : 2) | (out_data_len ? 0 : 4);
    U = nextU++;
    if (t) {
        h_pre("HDecode", desc); ev_int("T", t->T); ev_int("U", U); ev_int("force", force_metadata_checks); ev_int("nfrag", num_fragments);
        ev_int("flc", 0); ev_int("nullmask", nullmask); ev_arr("idx", idx, num_fragments);
        ev_cfg(t); ev_int("len", (long long)t->len); ev_instcfg(desc);
    } else { h_pre("HAny", desc); ev_int("U", U); ev_int("dec", 1); }
    rc = liberasurecode_decode(desc, available_fragments, num_fragments, fragment_len, force_metadata_checks, out_data, out_data_len);
    h_post(rc, ff0);
    if (rc == 0 && out_data && out_data_len) {
        if (t) {
            ev_int("olen", (long long)*out_data_len);
            ev_int("match", *out_data_len == t->len && (t->len == 0 || (*out_data && memcmp(*out_data, t->data, t->len) == 0)));
        }
        for (i = 0; i < NOUT; i++) if (!outs[i].owed) { outs[i].p = *out_data; outs[i].U = U; outs[i].owed = 1; break; }
    }
    ev_end();
    pthread_mutex_unlock(&mu);
    return rc;
}
int vs_decode_cleanup(int desc, char *data)
{
    long ff0 = verif_foreign_free; int rc, i, slot = -1;
    pthread_mutex_lock(&mu); shim_init();
    for (i = 0; i < NOUT; i++) if (outs[i].owed && outs[i].p == data && data) slot = i;
    if (slot >= 0 || !data) { h_pre("HDecClean", desc); ev_int("U", slot >= 0 ? outs[slot].U : 0); ev_int("nullmask", data ? 0 : 1); ev_int("had", slot >= 0); }
    else h_pre("HAny", desc);
    rc = liberasurecode_decode_cleanup(desc, data);
    h_post(rc, ff0); ev_end();
    if (slot >= 0 && rc == 0) outs[slot].owed = 0;
    pthread_mutex_unlock(&mu);
    return rc;
}
int vs_reconstruct_fragment(int desc, char **available_fragments, int num_fragments, uint64_t fragment_len, int destination_idx, char *out_fragment)
{
    long ff0 = verif_foreign_free; int rc, idx[2 * MAXF], nullmask; struct stripe *t;
    pthread_mutex_lock(&mu); shim_init();
    t = identify(available_fragments, num_fragments, fragment_len, idx);
    nullmask = (available_fragments ? 0 : 1) | (out_fragment ? 0 : 2);
    if (t) {
        h_pre("HRecon", desc); ev_int("T", t->T); ev_int("U", destination_idx); ev_int("force", 0); ev_int("nfrag", num_fragments);
        ev_int("flc", 0); ev_int("nullmask", nullmask); ev_arr("idx", idx, num_fragments);
        ev_cfg(t); ev_int("len", (long long)t->len); ev_instcfg(desc);
    } else { h_pre("HAny", desc); ev_int("rec", 1); }
    rc = liberasurecode_reconstruct_fragment(desc, available_fragments, num_fragments, fragment_len, destination_idx, out_fragment);
    h_post(rc, ff0);
    if (t && rc == 0 && out_fragment)
        ev_int("same", destination_idx >= 0 && destination_idx < t->k + t->m && memcmp(out_fragment, t->frag[destination_idx], t->flen) == 0);
    ev_end();
    pthread_mutex_unlock(&mu);
    return rc;
}
int vs_fragments_needed(int desc, int *fragments_to_reconstruct, int *fragments_to_exclude, int *fragments_needed)
{
    long ff0 = verif_foreign_free; int rc, nullmask, nR = 0, nX = 0, nn = 0, ok = 1; ec_backend_t inst;
    pthread_mutex_lock(&mu); shim_init();
    inst = liberasurecode_backend_instance_get_by_desc(desc);
    nullmask = (fragments_to_reconstruct ? 0 : 1) | (fragments_to_exclude ? 0 : 2) | (fragments_needed ? 0 : 4);
    if (fragments_to_reconstruct) while (fragments_to_reconstruct[nR] != -1 && nR < MAXF) nR++;
    if (fragments_to_exclude) while (fragments_to_exclude[nX] != -1 && nX < MAXF) nX++;
    if (inst) {
        int n = inst->args.uargs.k + inst->args.uargs.m, i;
        for (i = 0; i < nR; i++) if (fragments_to_reconstruct[i] < 0 || fragments_to_reconstruct[i] >= n) ok = 0;
        for (i = 0; i < nX; i++) if (fragments_to_exclude[i] < 0 || fragments_to_exclude[i] >= n) ok = 0;
    }
    if (ok) {
        h_pre("HNeeded", desc); ev_int("nullmask", nullmask);
        ev_arr("R", fragments_to_reconstruct ? fragments_to_reconstruct : &nR, nR); ev_arr("X", fragments_to_exclude ? fragments_to_exclude : &nX, nX);
        ev_instcfg(desc);
    } else h_pre("HAny", desc);
    rc = liberasurecode_fragments_needed(desc, fragments_to_reconstruct, fragments_to_exclude, fragments_needed);
    h_post(rc, ff0);
    if (ok && rc >= 0 && fragments_needed) { while (fragments_needed[nn] != -1 && nn < MAXF) nn++; ev_arr("N", fragments_needed, nn); }
    ev_end();
    pthread_mutex_unlock(&mu);
    return rc;
}
/* a pristine fragment of a remembered stripe? */
static struct stripe *pristine(const char *f, int *ix)
{
    int s;
    if (!f) return NULL;
    for (s = NST - 1; s >= 0; s--) {
        struct stripe *t = &st[s]; int x;
        if (!t->used || !readable(f, t->flen)) continue;
        x = frag_idx(f);
        if (x >= 0 && x < t->k + t->m && memcmp(f, t->frag[x], t->flen) == 0) { *ix = x; return t; }
    }
    return NULL;
}
int vs_get_fragment_metadata(char *fragment, fragment_metadata_t *fragment_metadata)
{
    long ff0 = verif_foreign_free; int rc, ix = 0; struct stripe *t;
    pthread_mutex_lock(&mu); shim_init();
    t = pristine(fragment, &ix);
    if (t || !fragment || !fragment_metadata) {
        h_pre("HMeta", 0); ev_int("T", t ? t->T : 0); ev_int("i", ix); ev_int("nullmask", (fragment ? 0 : 1) | (fragment_metadata ? 0 : 2));
    } else h_pre("HAny", 0);
    rc = liberasurecode_get_fragment_metadata(fragment, fragment_metadata);
    h_post(rc, ff0); ev_end();
    pthread_mutex_unlock(&mu);
    return rc;
}
int vs_verify_stripe_metadata(int desc, char **fragments, int num_fragments)
{
    long ff0 = verif_foreign_free; int rc;
    pthread_mutex_lock(&mu); shim_init();
    h_pre("HVs", desc); ev_int("T", 0); ev_int("n", num_fragments); ev_int("nullmask", fragments ? 0 : 1); ev_instcfg(desc);
    rc = liberasurecode_verify_stripe_metadata(desc, fragments, num_fragments);
    h_post(rc, ff0); ev_end();
    pthread_mutex_unlock(&mu);
    return rc;
}
int vs_get_aligned_data_size(int desc, uint64_t data_len)
{
    int r;
    pthread_mutex_lock(&mu); shim_init();
    r = liberasurecode_get_aligned_data_size(desc, data_len);
    pthread_mutex_unlock(&mu);
    return r;
}
int vs_get_fragment_size(int desc, int data_len)
{
    long ff0 = verif_foreign_free; int a, f, mn;
    pthread_mutex_lock(&mu); shim_init();
    h_pre("HSize", desc); ev_int("len", data_len); ev_instcfg(desc);
    a = liberasurecode_get_aligned_data_size(desc, data_len);
    f = liberasurecode_get_fragment_size(desc, data_len);
    mn = liberasurecode_get_minimum_encode_size(desc);
    h_post(a, ff0); ev_int("aligned", a); ev_int("frag", f); ev_int("min", mn); ev_end();
    pthread_mutex_unlock(&mu);
    return f;
}
