/* drv_conc: free-running multi-threaded stress of liberasurecode (C18).
 *   drv_conc <creators> <shared_users> <iterations> <seed> <mode>
 * creators : threads that create / use / destroy their own instances (RS, flat XOR, ISA-L in rotation)
 * shared   : threads that encode/decode/reconstruct/query through ONE shared descriptor created up front
 * mode bit2: flat-XOR hd=4 instances only, shared descriptor too (deepest decoder paths concurrently)
 * mode bit0: the creators start together so that the process's first RS creates race (no instance pre-exists)
 * Every thread checks its own results against sequential expectations (decode returns the original bytes,
 * reconstruct is byte-identical, descriptors of simultaneously live instances differ).  The monitor for data
 * races is ThreadSanitizer (tsan build); crashes are caught by the caller.  Prints one JSON line. */
#define _GNU_SOURCE
#include <stdio.h>
#include <stdlib.h>
#include <string.h>
#include <stdint.h>
#include <pthread.h>
#include <erasurecode.h>

#define MAXT 64
static int n_creators, n_shared, iters, mode;
static uint64_t seed0;
static int live_desc[MAXT];           /* descriptor currently held by creator t (0 = none) */
static pthread_barrier_t bar, hbar;
static int shared_desc, shared_k = 4, shared_m = 2, shared_tol = 2;
static long errors, dup_desc, ops;
static pthread_mutex_t emu = PTHREAD_MUTEX_INITIALIZER;
static char first_error[512];

static void fail(const char *what, int t, int it, int rc)
{
    pthread_mutex_lock(&emu);
    if (!errors) snprintf(first_error, sizeof first_error, "%s thread=%d iter=%d rc=%d", what, t, it, rc);
    errors++;
    pthread_mutex_unlock(&emu);
}
static uint64_t rnd(uint64_t *s) { uint64_t z = (*s += 0x9e3779b97f4a7c15ULL); z = (z ^ (z >> 30)) * 0xbf58476d1ce4e5b9ULL; z = (z ^ (z >> 27)) * 0x94d049bb133111ebULL; return z ^ (z >> 31); }

/* one round trip through descriptor d (k, m; tol = number of erasures the code tolerates): encode, decode with a random
 * tolerated erasure set (1..tol fragments, data fragments favoured so that every decoder path - one, two, three data
 * fragments lost, with and without lost parities - runs concurrently), reconstruct one of the missing fragments, the
 * fragments-needed query, size query and validation */
static int roundtrip(int d, int k, int m, int tol, uint64_t *s, int t, int it)
{
    uint64_t len = 1 + rnd(s) % 600, flen = 0, olen = 0; char *data = malloc(len), **ed = NULL, **ep = NULL, *out = NULL;
    char *frags[64]; int i, n = 0, rc, ne, missing[64], gone[64], dest = -1; char *rec;
    for (i = 0; i < (int)len; i++) data[i] = (char)rnd(s);
    rc = liberasurecode_encode(d, data, len, &ed, &ep, &flen);
    if (rc != 0) { fail("encode", t, it, rc); free(data); return -1; }
    memset(gone, 0, sizeof gone);
    ne = tol < 1 ? 1 : 1 + (int)(rnd(s) % tol);
    if (rnd(s) % 3 == 0) ne = tol < 1 ? 1 : tol;
    for (i = 0; i < ne; i++) {
        int x = (rnd(s) % 4) ? (int)(rnd(s) % k) : (int)(rnd(s) % (k + m));
        if (gone[x]) continue;
        gone[x] = 1; missing[i] = x; if (dest < 0 || rnd(s) % 2) dest = x;
    }
    for (i = 0; i < k + m; i++) if (!gone[i]) frags[n++] = i < k ? ed[i] : ep[i - k];
    rc = liberasurecode_decode(d, frags, n, flen, (int)(rnd(s) & 1), &out, &olen);
    if (rc != 0 || olen != len || memcmp(out, data, len) != 0) fail("decode result differs from the sequential result", t, it, rc);
    if (rc == 0) liberasurecode_decode_cleanup(d, out);
    rec = malloc(flen);
    rc = liberasurecode_reconstruct_fragment(d, frags, n, flen, dest, rec);
    if (rc != 0 || memcmp(rec, dest < k ? ed[dest] : ep[dest - k], flen) != 0) fail("reconstruct result differs from the sequential result", t, it, rc);
    free(rec);
    {
        int R[2], X[1] = { -1 }, N[80], j, bad = 0;
        R[0] = dest; R[1] = -1;
        for (j = 0; j < 80; j++) N[j] = -7;
        rc = liberasurecode_fragments_needed(d, R, X, N);
        if (rc != 0) bad = 1;
        for (j = 0; !bad && j < 70 && N[j] != -1; j++) if (N[j] < 0 || N[j] >= k + m || N[j] == dest) bad = 1;
        if (bad) fail("fragments_needed result differs from the sequential result", t, it, rc);
    }
    if (liberasurecode_get_fragment_size(d, (int)len) != (int)(flen - 80)) fail("fragment size query", t, it, 0);
    if (liberasurecode_get_aligned_data_size(d, len) < (int)len || liberasurecode_get_minimum_encode_size(d) <= 0) fail("size queries", t, it, 0);
    if (is_invalid_fragment(d, ed[0]) != 0) fail("own fragment judged invalid", t, it, 0);
    {
        /* every public entry point that looks the instance up: stripe verification and the metadata query too */
        char *all[64]; fragment_metadata_t md; int q;
        for (q = 0; q < k + m; q++) all[q] = q < k ? ed[q] : ep[q - k];
        rc = liberasurecode_verify_stripe_metadata(d, all, k + m);
        if (rc != 0) fail("stripe verification of an own stripe differs from the sequential result", t, it, rc);
        rc = liberasurecode_get_fragment_metadata(ep[0], &md);
        if (rc != 0 || md.idx != (uint32_t)k || md.chksum_mismatch != 0) fail("metadata query differs from the sequential result", t, it, rc);
    }
    liberasurecode_encode_cleanup(d, ed, ep);
    free(data);
    (void)missing;
    __sync_fetch_and_add(&ops, 10);
    return 0;
}

static void *creator(void *arg)
{
    int t = (int)(long)arg, it; uint64_t s = seed0 * 1000 + t;
    static const int cfg[8][5] = { {6, 4, 2, 2, 16}, {3, 5, 5, 3, 32}, {6, 2, 1, 1, 16}, {7, 4, 2, 2, 8},
                                   {3, 10, 5, 4, 32}, {4, 5, 3, 3, 8}, {3, 6, 6, 4, 32}, {6, 6, 4, 4, 16} };
    pthread_barrier_wait(&bar);
    for (it = 0; it < iters; it++) {
        const int *c = cfg[(mode & 2) ? 0 : (mode & 4) ? 4 + 2 * ((t + it) % 2) : (t + it) % 8]; struct ec_args a; int d, j, rc, tol;
        memset(&a, 0, sizeof a); a.k = c[1]; a.m = c[2]; a.hd = c[3]; a.w = c[4]; a.ct = CHKSUM_CRC32;
        d = liberasurecode_instance_create((ec_backend_id_t)c[0], &a);
        if (d <= 0) { fail("create", t, it, d); continue; }
        __atomic_store_n(&live_desc[t], d, __ATOMIC_SEQ_CST);
        for (j = 0; j < n_creators; j++) if (j != t && __atomic_load_n(&live_desc[j], __ATOMIC_SEQ_CST) == d) { __sync_fetch_and_add(&dup_desc, 1); fail("two live instances share a descriptor", t, it, d); }
        tol = c[0] == 3 ? c[3] - 1 : c[2];
        roundtrip(d, c[1], c[2], tol, &s, t, it);
        if (it % 3 == 0 || (mode & 4)) roundtrip(d, c[1], c[2], tol, &s, t, it);
        __atomic_store_n(&live_desc[t], 0, __ATOMIC_SEQ_CST);
        rc = liberasurecode_instance_destroy(d);
        if (rc != 0) fail("destroy", t, it, rc);
    }
    return NULL;
}
/* mode bit3: every creator holds SIX instances at a time (so that dozens are live at once and the registry list is
 * long), uses them, and destroys them back to back while the other threads do the same; a destroyed descriptor must be
 * dead for its owner immediately (its number may be reissued to another thread, so only the owner's next size query
 * directly after its own destroy of a descriptor it has not seen reissued is judged) */
#define HOLD 6
static void *hoarder(void *arg)
{
    int t = (int)(long)arg, it; uint64_t s = seed0 * 3000 + t;
    static const int cfg[4][5] = { {6, 4, 2, 2, 16}, {3, 5, 5, 3, 32}, {0, 4, 2, 2, 32}, {6, 2, 1, 1, 16} };
    pthread_barrier_wait(&bar);
    for (it = 0; it < iters; it++) {
        int d[HOLD], kk[HOLD], mm[HOLD], tl[HOLD], j, rc;
        for (j = 0; j < HOLD; j++) {
            const int *c = cfg[(t + it + j) % 4]; struct ec_args a;
            memset(&a, 0, sizeof a); a.k = c[1]; a.m = c[2]; a.hd = c[3]; a.w = c[4]; a.ct = CHKSUM_CRC32;
            d[j] = liberasurecode_instance_create((ec_backend_id_t)c[0], &a);
            kk[j] = c[1]; mm[j] = c[2]; tl[j] = c[0] == 3 ? c[3] - 1 : c[2];
            if (d[j] <= 0) fail("create", t, it, d[j]);
            if (c[0] == 0) tl[j] = -1;                       /* null backend: no round trip */
        }
        for (j = 0; j < HOLD; j++) if (d[j] > 0 && tl[j] >= 0) roundtrip(d[j], kk[j], mm[j], tl[j], &s, t, it);
        /* destroy in an order that differs from thread to thread; all hoarders start destroying together */
        pthread_barrier_wait(&hbar);
        for (j = 0; j < HOLD; j++) {
            int q = (j * 5 + t) % HOLD;
            if (d[q] <= 0) continue;
            rc = liberasurecode_instance_destroy(d[q]);
            if (rc != 0) fail("destroy", t, it, rc);
        }
        __sync_fetch_and_add(&ops, 2 * HOLD);
    }
    return NULL;
}
/* a stripe of the shared instance written while the legacy-CRC switch was on (headers and payload checksums in the
 * historical flavour): shared users read it while other threads read and write standard-flavour stripes, so that both
 * flavours are being validated at the same time */
static char **leg_d, **leg_p; static uint64_t leg_flen; static char leg_data[777];
static void legacy_read(int t, int it)
{
    char *frags[64], *out = NULL; uint64_t olen = 0; int i, n = 0, rc; fragment_metadata_t md;
    if (!leg_d) return;
    for (i = 1; i < shared_k + shared_m; i++) frags[n++] = i < shared_k ? leg_d[i] : leg_p[i - shared_k];
    rc = liberasurecode_decode(shared_desc, frags, n, leg_flen, it & 1, &out, &olen);
    if (rc != 0 || olen != sizeof leg_data || memcmp(out, leg_data, sizeof leg_data) != 0) fail("decode of a legacy-flavour stripe differs from the sequential result", t, it, rc);
    if (rc == 0) liberasurecode_decode_cleanup(shared_desc, out);
    rc = liberasurecode_get_fragment_metadata(leg_p[0], &md);
    if (rc != 0 || md.chksum_mismatch != 0) fail("metadata query on a legacy-flavour fragment differs from the sequential result", t, it, rc);
    if (is_invalid_fragment(shared_desc, leg_d[0]) != 0) fail("legacy-flavour fragment judged invalid", t, it, 0);
}
static void *shared_user(void *arg)
{
    int t = (int)(long)arg, it; uint64_t s = seed0 * 7777 + t;
    pthread_barrier_wait(&bar);
    for (it = 0; it < iters * 2; it++) {
        if (t % 2 == 0 || it % 3 == 0) roundtrip(shared_desc, shared_k, shared_m, shared_tol, &s, 100 + t, it);
        legacy_read(100 + t, it); legacy_read(100 + t, it + 1);
    }
    return NULL;
}

int main(int argc, char **argv)
{
    pthread_t th[MAXT]; int i, n = 0;
    if (argc < 6) { fprintf(stderr, "usage: drv_conc creators shared iters seed mode\n"); return 2; }
    n_creators = atoi(argv[1]); n_shared = atoi(argv[2]); iters = atoi(argv[3]); seed0 = strtoull(argv[4], 0, 10); mode = atoi(argv[5]);
    if (n_creators + n_shared > MAXT) return 2;
    if (n_shared > 0) {
        struct ec_args a; memset(&a, 0, sizeof a);
        /* mode bit0 set: the shared descriptor is a flat-XOR instance, so no RS instance (and no GF table) pre-exists */
        /* mode bit2 set: flat XOR with hd = 4 (three lost data fragments: the decoder's deepest path), shared and per thread */
        if (mode & 4) { a.k = 10; a.m = 5; a.hd = 4; a.ct = CHKSUM_CRC32; shared_k = 10; shared_m = 5; shared_tol = 3; shared_desc = liberasurecode_instance_create(EC_BACKEND_FLAT_XOR_HD, &a); }
        else if (mode & 1) { a.k = 5; a.m = 5; a.hd = 3; a.ct = CHKSUM_CRC32; shared_k = 5; shared_m = 5; shared_tol = 2; shared_desc = liberasurecode_instance_create(EC_BACKEND_FLAT_XOR_HD, &a); }
        else { a.k = 4; a.m = 2; a.hd = 2; a.ct = CHKSUM_CRC32; shared_desc = liberasurecode_instance_create(EC_BACKEND_LIBERASURECODE_RS_VAND, &a); }
        if (shared_desc <= 0) { printf("{\"error\":\"cannot create shared instance\"}\n"); return 2; }
        {
            int q; for (q = 0; q < (int)sizeof leg_data; q++) leg_data[q] = (char)(0x80 + q * 7);
            setenv("LIBERASURECODE_WRITE_LEGACY_CRC", "1", 1);
            if (liberasurecode_encode(shared_desc, leg_data, sizeof leg_data, &leg_d, &leg_p, &leg_flen) != 0) leg_d = NULL;
            unsetenv("LIBERASURECODE_WRITE_LEGACY_CRC");
        }
    }
    pthread_barrier_init(&bar, NULL, n_creators + n_shared);
    pthread_barrier_init(&hbar, NULL, n_creators > 0 ? n_creators : 1);
    for (i = 0; i < n_creators; i++) pthread_create(&th[n++], NULL, (mode & 8) ? hoarder : creator, (void *)(long)i);
    for (i = 0; i < n_shared; i++) pthread_create(&th[n++], NULL, shared_user, (void *)(long)i);
    for (i = 0; i < n; i++) pthread_join(th[i], NULL);
    if (n_shared > 0) { if (leg_d) liberasurecode_encode_cleanup(shared_desc, leg_d, leg_p); liberasurecode_instance_destroy(shared_desc); }
    printf("{\"creators\":%d,\"shared\":%d,\"iters\":%d,\"mode\":%d,\"ops\":%ld,\"errors\":%ld,\"dup_desc\":%ld,\"first_error\":\"%s\"}\n",
           n_creators, n_shared, iters, mode, ops, errors, dup_desc, first_error);
    return errors ? 1 : 0;
}
