/* ecdrive: scripted driver for liberasurecode.
 *
 *   ecdrive <script> <events.ndjson> [guard]
 *
 * A supervisor process forks a worker that interprets the script and appends one
 * ndjson event per public library call, written at the call's return (the
 * linearisation point of a sequential library).  Before every call the event
 * prefix (action + arguments) is published in shared memory; if the worker dies
 * (signal, sanitizer report) the supervisor appends a "Fault" event carrying
 * that prefix and restarts the worker behind the failing case, so a crash is a
 * rejected trace with a replay, never a harness failure.
 */
#include "ecdrive.h"
#include <time.h>
#include <fcntl.h>
#include <dlfcn.h>
#include <pthread.h>

struct shm *shm;
FILE *evf;
int g_guard;
static long resume_cmd = 0, resume_sub = -1;
static char evbuf[1 << 20];
static size_t evlen;
static int ev_first;

/* ------------------------------------------------------------------ events */
static void ev_putc(char c) { if (evlen + 1 < sizeof evbuf) evbuf[evlen++] = c; }
static void ev_puts(const char *s) { while (*s) ev_putc(*s++); }
static void ev_key(const char *k)
{
    if (!ev_first) ev_putc(',');
    ev_first = 0;
    ev_putc('"'); ev_puts(k); ev_puts("\":");
}
void ev_begin(const char *name)
{
    evlen = 0; ev_first = 1; ev_putc('{');
    ev_key("e"); ev_putc('"'); ev_puts(name); ev_putc('"');
}
void ev_int(const char *k, long long v)
{
    char b[32];
    /* TLC integers are 32 bit: clamp what is logged as a plain int */
    if (v > 2147483647LL) v = 2147483647LL;
    if (v < -2147483647LL) v = -2147483647LL;
    ev_key(k); snprintf(b, sizeof b, "%lld", v); ev_puts(b);
}
void ev_u32(const char *k, uint32_t v)
{
    char b[48];
    ev_key(k); snprintf(b, sizeof b, "[%u,%u]", v >> 16, v & 0xffff); ev_puts(b);
}
void ev_u64(const char *k, uint64_t v)
{
    char b[64];
    ev_key(k);
    snprintf(b, sizeof b, "[%u,%u,%u,%u]", (unsigned)(v >> 48) & 0xffff, (unsigned)(v >> 32) & 0xffff,
             (unsigned)(v >> 16) & 0xffff, (unsigned)v & 0xffff);
    ev_puts(b);
}
void ev_str(const char *k, const char *s)
{
    ev_key(k); ev_putc('"');
    for (; *s; s++) { if (*s == '"' || *s == '\\') ev_putc('\\'); if ((unsigned char)*s >= 32) ev_putc(*s); }
    ev_putc('"');
}
void ev_arr(const char *k, const int *a, int n)
{
    char b[16]; int i;
    ev_key(k); ev_putc('[');
    for (i = 0; i < n; i++) { if (i) ev_putc(','); snprintf(b, sizeof b, "%d", a[i]); ev_puts(b); }
    ev_putc(']');
}
void ev_bytes(const char *k, const unsigned char *p, long n)
{
    char b[8]; long i;
    ev_key(k); ev_putc('[');
    for (i = 0; i < n; i++) { if (i) ev_putc(','); snprintf(b, sizeof b, "%u", p[i]); ev_puts(b); }
    ev_putc(']');
}
void ev_call(void)
{
    size_t n = evlen < sizeof shm->prefix - 2 ? evlen : sizeof shm->prefix - 2;
    memcpy(shm->prefix, evbuf, n); shm->prefix[n] = 0;
    fflush(evf);
    shm->calls++;
    shm->incall = 1;
}
void ev_nocall(void) { shm->incall = 0; }
void ev_end(void)
{
    shm->incall = 0;
    ev_putc('}'); ev_putc('\n');
    fwrite(evbuf, 1, evlen, evf);
    shm->events++;
}

/* ------------------------------------------------------------------ prng */
uint64_t rnd_next(uint64_t *s)
{
    uint64_t z = (*s += 0x9e3779b97f4a7c15ULL);
    z = (z ^ (z >> 30)) * 0xbf58476d1ce4e5b9ULL;
    z = (z ^ (z >> 27)) * 0x94d049bb133111ebULL;
    return z ^ (z >> 31);
}
static uint64_t mix(uint64_t a, uint64_t b) { uint64_t s = a * 0x9e3779b97f4a7c15ULL ^ b; rnd_next(&s); return rnd_next(&s); }
void fill_data(unsigned char *p, uint64_t len, uint64_t seed)
{
    uint64_t s = seed * 0x2545F4914F6CDD1DULL + 7, i;
    for (i = 0; i < len; i++) p[i] = (unsigned char)(rnd_next(&s) >> 24);
    /* never all-zero, never constant */
    if (len > 0 && p[0] == 0) p[0] = 0x5a;
}
uint32_t dig32(const unsigned char *p, size_t n)
{
    uint32_t h = 2166136261u; size_t i;
    for (i = 0; i < n; i++) { h ^= p[i]; h *= 16777619u; }
    return h;
}

/* ------------------------------------------------------------------ buffers */
static long pagesz;
struct placed place_copy(const char *src, size_t len, int off)
{
    struct placed r; memset(&r, 0, sizeof r);
    if (g_guard) {
        size_t pages = (len + pagesz - 1) / pagesz + 1;
        char *m = mmap(NULL, (pages + 1) * pagesz, PROT_READ | PROT_WRITE, MAP_PRIVATE | MAP_ANONYMOUS, -1, 0);
        if (m == MAP_FAILED) { perror("mmap"); exit(3); }
        mprotect(m + pages * pagesz, pagesz, PROT_NONE);
        r.base = m; r.maplen = (pages + 1) * pagesz; r.guarded = 1;
        r.ptr = m + pages * pagesz - len;         /* ends exactly at the guard page */
        if (len) memcpy(r.ptr, src, len);
    } else {
        r.base = malloc(len + off + 1);
        r.ptr = r.base + off;
        if (len) memcpy(r.ptr, src, len);
    }
    return r;
}
void placed_protect(struct placed *p, int on)
{
    if (p->guarded) mprotect(p->base, p->maplen - pagesz, on ? PROT_READ : (PROT_READ | PROT_WRITE));
}
void placed_free(struct placed *p)
{
    if (p->guarded) munmap(p->base, p->maplen); else free(p->base);
    p->base = p->ptr = NULL;
}

/* ------------------------------------------------------------------ library state */
/* Two internals are observed (and the counter also set, to reach the wrap-around) by NAME, looked up at run time:
 * if a refactoring renames or hides them the driver still runs; the counter is then a private shadow (the model
 * treats the numbering policy as drift, not as a violation) and the GF-table flag reads "unknown" (-1). */
static int shadow_next, *shadow_log;
static int *p_next = &shadow_next, **p_log = &shadow_log, have_next, have_log;
static void bind_internals(void)
{
    void *s;
    if ((s = dlsym(RTLD_DEFAULT, "next_backend_desc")) != NULL) { p_next = s; have_next = 1; }
    if ((s = dlsym(RTLD_DEFAULT, "log_table")) != NULL) { p_log = s; have_log = 1; }
}
#define next_backend_desc (*p_next)
#define GF_FLAG (have_log ? (*p_log != NULL) : -1)

struct slot { int used, desc, be, k, m, hd, w, ct, live; };
static struct slot slots[MAXN];
struct databuf { unsigned char *p; uint64_t len; uint64_t seed; };
static struct databuf datas[MAXN];
struct stripe {
    int used, slot, desc, k, m, datai, owed;
    char **d, **p; uint64_t flen;
    char *frag[MAXN];        /* private pristine copies of the k+m fragments */
};
static struct stripe stripes[MAXN];

static void ev_cfg(int be, int k, int m, int hd, int ct)
{
    ev_int("be", be); ev_int("k", k); ev_int("m", m); ev_int("hd", hd); ev_int("ct", ct);
}
static void ev_ledger(const char *k) { ev_int(k, verif_live); }

static int do_create(int be, int k, int m, int hd, int w, int ct, int nullargs)
{
    struct ec_args a; int d; long l0 = verif_live, ff = verif_foreign_free;
    memset(&a, 0, sizeof a);
    a.k = k; a.m = m; a.hd = hd; a.w = w; a.ct = ct;
    ev_begin("Create"); ev_cfg(be, k, m, hd, ct); ev_int("w", w); ev_int("nullargs", nullargs); ev_int("l0", l0);
    /* wnat: the caller asked for the backend's own word size (or none): such a create must succeed in a sweep; with
     * any other word size the configuration may be refused (then the sweep has nothing to do) */
    ev_int("wnat", w == 0 || w == (be == 6 ? 16 : (be == 3 || be == 0) ? 32 : 8));
    ev_call();
    d = liberasurecode_instance_create((ec_backend_id_t)be, nullargs ? NULL : &a);
    ev_int("rc", d); ev_int("l1", verif_live); ev_int("ff", verif_foreign_free - ff);
    ev_int("gf", GF_FLAG);
    ev_end();
    return d;
}
static int do_destroy(int d)
{
    int rc; long l0 = verif_live, ff = verif_foreign_free;
    ev_begin("Destroy"); ev_int("d", d); ev_int("l0", l0); ev_call();
    rc = liberasurecode_instance_destroy(d);
    ev_int("rc", rc); ev_int("l1", verif_live); ev_int("ff", verif_foreign_free - ff); ev_int("gf", GF_FLAG);
    ev_end();
    return rc;
}

/* one encoded stripe kept by sweeps */
struct enc {
    int desc, be, k, m, hd, ct; uint64_t len, seed; unsigned char *data;
    char **d, **p; uint64_t flen; char *frag[MAXN]; int rc;
};
static int do_encode(struct enc *e, int logbytes)
{
    int i, n = e->k + e->m; long l0 = verif_live, ff = verif_foreign_free;
    e->d = e->p = NULL; e->flen = 0;
    ev_begin("Enc"); ev_int("d", e->desc); ev_cfg(e->be, e->k, e->m, e->hd, e->ct);
    ev_int("len", (long long)e->len); ev_int("seed", (long long)(e->seed & 0x7fffffff)); ev_int("l0", l0);
    if (logbytes) ev_bytes("data", e->data, e->len);
    ev_call();
    e->rc = liberasurecode_encode(e->desc, (char *)e->data, e->len, &e->d, &e->p, &e->flen);
    ev_int("rc", e->rc); ev_int("l1", verif_live); ev_int("ff", verif_foreign_free - ff);
    if (e->rc == 0) {
        ev_int("flen", (long long)e->flen);
        for (i = 0; i < n; i++) {
            char *f = i < e->k ? e->d[i] : e->p[i - e->k];
            e->frag[i] = malloc(e->flen);
            memcpy(e->frag[i], f, e->flen);
        }
        if (logbytes) {
            char key[16];
            for (i = 0; i < n; i++) { snprintf(key, sizeof key, "f%d", i); ev_bytes(key, (unsigned char *)e->frag[i], e->flen); }
        }
    }
    ev_end();
    return e->rc;
}
static void enc_release(struct enc *e)
{
    int i, rc; long l0 = verif_live, ff = verif_foreign_free;
    if (e->rc != 0) return;
    ev_begin("EncClean"); ev_int("d", e->desc); ev_int("l0", l0); ev_call();
    rc = liberasurecode_encode_cleanup(e->desc, e->d, e->p);
    ev_int("rc", rc); ev_int("l1", verif_live); ev_int("ff", verif_foreign_free - ff); ev_end();
    for (i = 0; i < e->k + e->m; i++) { free(e->frag[i]); e->frag[i] = NULL; }
    e->rc = -1;
}

/* decode with the supplied fragment list; logs a Dec event (and its cleanup) */
struct arr { int n; int idx[2 * MAXN]; int off[2 * MAXN]; };
static const int *g_dmglog;      /* damage kinds to log instead of the applied mask (sweep_force) */
static char **g_override;        /* per list entry: fragment bytes to supply instead of the pristine copy */
static void do_decode(struct enc *e, struct arr *a, int force, uint64_t flen_arg, const unsigned char *dmgmask)
{
    struct placed pl[2 * MAXN]; char *ptrs[2 * MAXN]; int i, rc, unch = 1; char *out = NULL; uint64_t olen = 0;
    long l0, l1, l2, ff = verif_foreign_free;
    uint32_t before[2 * MAXN];
    for (i = 0; i < a->n; i++) {
        pl[i] = place_copy((g_override && g_override[i]) ? g_override[i] : e->frag[a->idx[i]], e->flen, a->off[i]);
        if (dmgmask && dmgmask[i]) {
            /* damage: flip a payload bit (1) or a header metadata bit (2) */
            /* the flipped payload bit lands anywhere in the payload (first, last, middle, beyond any chunk size) */
            if (dmgmask[i] == 1 && e->flen > 80) {
                static unsigned long flipctr; uint64_t pay = e->flen - 80, pos;
                flipctr++;
                pos = (flipctr % 4 == 0) ? (uint64_t)a->idx[i] % pay : (flipctr % 4 == 1) ? pay - 1 - ((uint64_t)a->idx[i] % pay)
                                                                : (flipctr * 0x9E3779B1ULL + (uint64_t)a->idx[i]) % pay;
                pl[i].ptr[80 + pos] ^= 0x10;
            }
            else pl[i].ptr[1] ^= 0x01;
        }
        before[i] = dig32((unsigned char *)pl[i].ptr, e->flen);
        ptrs[i] = pl[i].ptr; placed_protect(&pl[i], 1);
    }
    l0 = verif_live;
    ev_begin("Dec"); ev_int("d", e->desc); ev_cfg(e->be, e->k, e->m, e->hd, e->ct); ev_int("len", (long long)e->len); ev_int("seed", (long long)(e->seed & 0x7fffffff));
    ev_arr("idx", a->idx, a->n); ev_arr("off", a->off, a->n); ev_int("force", force);
    if (g_dmglog) ev_arr("dmg", g_dmglog, a->n);
    else if (dmgmask) { int dm[2 * MAXN]; for (i = 0; i < a->n; i++) dm[i] = dmgmask[i]; ev_arr("dmg", dm, a->n); }
    ev_int("flen", (long long)flen_arg); ev_int("l0", l0);
    ev_call();
    rc = liberasurecode_decode(e->desc, ptrs, a->n, flen_arg, force, &out, &olen);
    l1 = verif_live;
    ev_int("rc", rc);
    if (rc == 0) {
        int match = (olen == e->len) && (e->len == 0 || (out && memcmp(out, e->data, e->len) == 0));
        ev_int("olen", (long long)olen); ev_int("match", match);
        shm->incall = 1;
        liberasurecode_decode_cleanup(e->desc, out);
    }
    l2 = verif_live;
    for (i = 0; i < a->n; i++) {
        placed_protect(&pl[i], 0);
        if (dig32((unsigned char *)pl[i].ptr, e->flen) != before[i]) unch = 0;
        placed_free(&pl[i]);
    }
    ev_int("unch", unch); ev_int("l1", l1); ev_int("l2", l2); ev_int("ff", verif_foreign_free - ff);
    ev_end();
}
static void do_recon(struct enc *e, struct arr *a, int dest, uint64_t flen_arg)
{
    struct placed pl[2 * MAXN]; char *ptrs[2 * MAXN]; int i, rc, unch = 1; long l0, l1, ff = verif_foreign_free;
    uint32_t before[2 * MAXN];
    size_t osz = e->flen > flen_arg ? e->flen : flen_arg;
    char *out = malloc(osz + 1);
    memset(out, 0xA5, osz + 1);
    for (i = 0; i < a->n; i++) {
        pl[i] = place_copy(e->frag[a->idx[i]], e->flen, a->off[i]);
        before[i] = dig32((unsigned char *)pl[i].ptr, e->flen);
        ptrs[i] = pl[i].ptr; placed_protect(&pl[i], 1);
    }
    l0 = verif_live;
    ev_begin("Rec"); ev_int("d", e->desc); ev_cfg(e->be, e->k, e->m, e->hd, e->ct); ev_int("len", (long long)e->len); ev_int("seed", (long long)(e->seed & 0x7fffffff));
    ev_arr("idx", a->idx, a->n); ev_arr("off", a->off, a->n); ev_int("dest", dest);
    ev_int("flen", (long long)flen_arg); ev_int("l0", l0);
    ev_call();
    rc = liberasurecode_reconstruct_fragment(e->desc, ptrs, a->n, flen_arg, dest, out);
    l1 = verif_live;
    ev_int("rc", rc);
    if (rc == 0) {
        int same = dest >= 0 && dest < e->k + e->m && flen_arg == e->flen && memcmp(out, e->frag[dest], e->flen) == 0;
        ev_int("same", same);
        ev_int("tail", (unsigned char)out[osz] == 0xA5);
    }
    for (i = 0; i < a->n; i++) {
        placed_protect(&pl[i], 0);
        if (dig32((unsigned char *)pl[i].ptr, e->flen) != before[i]) unch = 0;
        placed_free(&pl[i]);
    }
    free(out);
    ev_int("unch", unch); ev_int("l1", l1); ev_int("ff", verif_foreign_free - ff);
    ev_end();
}

/* ------------------------------------------------------------------ sweeps */
static int skip_case(void)
{
    /* sub-case bookkeeping for resume after a fault */
    shm->sub++;
    return (shm->cmd == resume_cmd && shm->sub <= resume_sub);
}
static double choose(int n, int r) { double c = 1; int i; for (i = 1; i <= r; i++) c = c * (n - r + i) / i; return c; }
static uint64_t next_comb(uint64_t x) { uint64_t c = x & -x, r = x + c; return (((r ^ x) >> 2) / c) | r; }

static void arrange(struct enc *e, uint64_t E, int variant, uint64_t seed, struct arr *a)
{
    int n = e->k + e->m, i, j; uint64_t s = mix(seed, E * 8 + variant);
    a->n = 0;
    for (i = 0; i < n; i++) if (!((E >> i) & 1)) { a->idx[a->n] = i; a->off[a->n] = 0; a->n++; }
    if (variant == 1) {                 /* shuffled, duplicates, unaligned */
        int base = a->n;
        for (i = 0; i < base && a->n < 2 * MAXN - 1; i++)
            if ((rnd_next(&s) & 3) == 0) { a->idx[a->n] = a->idx[i]; a->n++; }
        for (i = a->n - 1; i > 0; i--) { j = rnd_next(&s) % (i + 1); int t = a->idx[i]; a->idx[i] = a->idx[j]; a->idx[j] = t; }
        for (i = 0; i < a->n; i++) a->off[i] = (rnd_next(&s) & 1) ? (int)(rnd_next(&s) % 15) + 1 : 0;
    } else if (variant == 2) {          /* reversed: parity first */
        for (i = 0; i < a->n / 2; i++) { int t = a->idx[i]; a->idx[i] = a->idx[a->n - 1 - i]; a->idx[a->n - 1 - i] = t; }
        for (i = 0; i < a->n; i++) a->off[i] = (i % 3 == 1) ? 8 : 0;
    }
}

/* sweep_dec be k m hd w ct len seed emin emax cap mode */
static void sweep_dec(int argc, char **argv)
{
    struct enc e; int n, esz, v; uint64_t cap; int mode; struct arr a;
    memset(&e, 0, sizeof e);
    e.be = atoi(argv[1]); e.k = atoi(argv[2]); e.m = atoi(argv[3]); e.hd = atoi(argv[4]);
    int w = atoi(argv[5]); e.ct = atoi(argv[6]); e.len = strtoull(argv[7], 0, 10); e.seed = strtoull(argv[8], 0, 10);
    int emin = atoi(argv[9]), emax = atoi(argv[10]); cap = strtoull(argv[11], 0, 10); mode = atoi(argv[12]);
    (void)argc;
    n = e.k + e.m;
    e.desc = do_create(e.be, e.k, e.m, e.hd, w, e.ct, 0);
    if (e.desc <= 0) return;
    e.data = malloc(e.len + 1); fill_data(e.data, e.len, e.seed);
    if (do_encode(&e, 0) != 0) { do_destroy(e.desc); free(e.data); return; }
    /* mode bit 64: the stripe was written under one meaning of the legacy-CRC switch and is READ under the other
     * (readers accept both checksum flavours whatever the switch says); decodes only - a fragment rebuilt now would
     * legitimately carry the other flavour */
    char *tg_keep = NULL; int tg = 0;
    if (mode & 64) {
        const char *o = getenv("LIBERASURECODE_WRITE_LEGACY_CRC");
        tg = 1; tg_keep = o ? strdup(o) : NULL;
        if (o && o[0] && strcmp(o, "0")) unsetenv("LIBERASURECODE_WRITE_LEGACY_CRC"); else setenv("LIBERASURECODE_WRITE_LEGACY_CRC", "1", 1);
        mode &= ~(8 | 16 | 32);
    }
    for (esz = emin; esz <= emax && esz <= n; esz++) {
        double total = choose(n, esz); uint64_t cnt = 0, E;
        int all = total <= (double)cap;
        uint64_t s = mix(e.seed, 1000 + esz);
        uint64_t lim = all ? (uint64_t)total : cap;
        E = esz ? ((1ULL << esz) - 1) : 0;
        for (cnt = 0; cnt < lim; cnt++) {
            if (!all) {                   /* random subset of that size */
                int c = 0; E = 0;
                while (c < esz) { int b = rnd_next(&s) % n; if (!((E >> b) & 1)) { E |= 1ULL << b; c++; } }
            }
            for (v = 0; v < 3; v++) {
                if (!(mode & (1 << v))) continue;
                arrange(&e, E, v, e.seed, &a);
                if (!skip_case()) do_decode(&e, &a, v == 0 ? 0 : (v == 2 ? 1 : (int)(E & 1)), e.flen, NULL);
            }
            if (mode & 8) {               /* reconstruct every missing index */
                int d;
                arrange(&e, E, 0, e.seed, &a);
                for (d = 0; d < n; d++) if ((E >> d) & 1) { if (!skip_case()) do_recon(&e, &a, d, e.flen); }
            }
            if (mode & 16) {              /* destination among the supplied: first and last */
                arrange(&e, E, 0, e.seed, &a);
                if (a.n > 0) {
                    if (!skip_case()) do_recon(&e, &a, a.idx[0], e.flen);
                    if (a.n > 1 && !skip_case()) do_recon(&e, &a, a.idx[a.n - 1], e.flen);
                }
            }
            if ((mode & 32) && esz > 0) { /* shuffled/unaligned list, one missing destination */
                int d, c = 0, pick; uint64_t s2 = mix(e.seed, E);
                arrange(&e, E, 1, e.seed, &a);
                pick = rnd_next(&s2) % esz;
                for (d = 0; d < n; d++) if ((E >> d) & 1) { if (c++ == pick) { if (!skip_case()) do_recon(&e, &a, d, e.flen); } }
            }
            if (all) { if (esz == 0) break; E = next_comb(E); }
        }
    }
    if (tg) { if (tg_keep) { setenv("LIBERASURECODE_WRITE_LEGACY_CRC", tg_keep, 1); free(tg_keep); } else unsetenv("LIBERASURECODE_WRITE_LEGACY_CRC"); }
    enc_release(&e);
    do_destroy(e.desc);
    free(e.data);
}

/* sweep_need be k m hd w maxl cap seed : all ordered (R,X) with |R|+|X| <= maxl, R non-empty */
static void need_case(struct enc *e, int *L, int len, int r)
{
    int R[MAXN], X[MAXN], N[MAXN + 4], i, rc, nn; long l0 = verif_live;
    for (i = 0; i < r; i++) R[i] = L[i];
    R[r] = -1;
    for (i = r; i < len; i++) X[i - r] = L[i];
    X[len - r] = -1;
    for (i = 0; i < MAXN + 4; i++) N[i] = -7;
    ev_begin("Need"); ev_int("d", e->desc); ev_cfg(e->be, e->k, e->m, e->hd, e->ct);
    ev_arr("R", R, r); ev_arr("X", X, len - r); ev_int("l0", l0);
    ev_call();
    rc = liberasurecode_fragments_needed(e->desc, R, X, N);
    ev_int("rc", rc);
    for (nn = 0; nn < MAXN + 3 && N[nn] != -1; nn++) ;
    if (rc >= 0) ev_arr("N", N, nn);
    ev_int("l1", verif_live);
    ev_end();
    /* every fifth case once more with OVERLAPPING lists (an index both requested and excluded, as the repository's own
     * test passes them): the union of the two lists is what counts */
    {
        static unsigned long ctr;
        if ((ctr++ % 5) == 0 && len < MAXN - 2) {
            int v;
            for (v = 0; v < 2; v++) {
                int R2[MAXN], X2[MAXN], nr = r, nx = len - r; long l2 = verif_live;
                for (i = 0; i < r; i++) R2[i] = R[i];
                for (i = 0; i < nx; i++) X2[i] = X[i];
                if (v == 0) X2[nx++] = R[0];                  /* requested index also excluded */
                else { if (len - r == 0) break; R2[nr++] = X[0]; }   /* excluded index also requested */
                R2[nr] = -1; X2[nx] = -1;
                for (i = 0; i < MAXN + 4; i++) N[i] = -7;
                ev_begin("Need"); ev_int("d", e->desc); ev_cfg(e->be, e->k, e->m, e->hd, e->ct);
                ev_arr("R", R2, nr); ev_arr("X", X2, nx); ev_int("l0", l2); ev_int("ov", 1);
                ev_call();
                rc = liberasurecode_fragments_needed(e->desc, R2, X2, N);
                ev_int("rc", rc);
                for (nn = 0; nn < MAXN + 3 && N[nn] != -1; nn++) ;
                if (rc >= 0) ev_arr("N", N, nn);
                ev_int("l1", verif_live);
                ev_end();
            }
        }
    }
}
static int g_need_onlylen;   /* sweep_need_len: only lists of exactly this length */
static void sweep_need(int argc, char **argv)
{
    struct enc e; int n, len, L[8], i; uint64_t cap, seed;
    memset(&e, 0, sizeof e);
    e.be = atoi(argv[1]); e.k = atoi(argv[2]); e.m = atoi(argv[3]); e.hd = atoi(argv[4]);
    int w = atoi(argv[5]); int maxl = atoi(argv[6]); cap = strtoull(argv[7], 0, 10); seed = strtoull(argv[8], 0, 10);
    (void)argc;
    e.ct = 1; n = e.k + e.m;
    if (maxl > 6) maxl = 6;
    e.desc = do_create(e.be, e.k, e.m, e.hd, w, e.ct, 0);
    if (e.desc <= 0) return;
    for (len = (g_need_onlylen ? maxl : 1); len <= maxl; len++) {
        double total = 1; for (i = 0; i < len; i++) total *= (n - i);
        if (total <= (double)cap) {
            /* all injective sequences of length len (odometer) */
            int c[8];
            for (i = 0; i < len; i++) c[i] = 0;
            for (;;) {
                int ok = 1, a, b;
                for (a = 0; a < len && ok; a++) for (b = 0; b < a; b++) if (c[a] == c[b]) { ok = 0; break; }
                if (ok) { int r; for (i = 0; i < len; i++) L[i] = c[i]; for (r = 1; r <= len; r++) if (!skip_case()) need_case(&e, L, len, r); }
                for (i = len - 1; i >= 0; i--) { if (++c[i] < n) break; c[i] = 0; }
                if (i < 0) break;
            }
        } else {
            uint64_t s = mix(seed, len), t;
            for (t = 0; t < cap; t++) {
                uint64_t used = 0; int r;
                for (i = 0; i < len; ) { int b = rnd_next(&s) % n; if (!((used >> b) & 1)) { used |= 1ULL << b; L[i++] = b; } }
                r = 1 + rnd_next(&s) % len;
                if (!skip_case()) need_case(&e, L, len, r);
            }
        }
    }
    do_destroy(e.desc);
}


/* oob_dest be k m hd w ct len seed : reconstruct with destinations outside 0..n-1 (C03, C13) */
static void oob_dest(char **argv)
{
    struct enc e; int n, v, t; struct arr a;
    int dests[7];
    memset(&e, 0, sizeof e);
    e.be = atoi(argv[1]); e.k = atoi(argv[2]); e.m = atoi(argv[3]); e.hd = atoi(argv[4]);
    int w = atoi(argv[5]); e.ct = atoi(argv[6]); e.len = strtoull(argv[7], 0, 10); e.seed = strtoull(argv[8], 0, 10);
    n = e.k + e.m;
    dests[0] = -1; dests[1] = n; dests[2] = n + 1; dests[3] = 2147483647; dests[4] = -2147483647 - 1; dests[5] = 64; dests[6] = -n;
    e.desc = do_create(e.be, e.k, e.m, e.hd, w, e.ct, 0);
    if (e.desc <= 0) return;
    e.data = malloc(e.len + 1); fill_data(e.data, e.len, e.seed);
    if (do_encode(&e, 0) != 0) { do_destroy(e.desc); free(e.data); return; }
    for (v = 0; v < 2; v++) {
        arrange(&e, v == 0 ? 0 : 1ULL << (n - 1), 0, e.seed, &a);   /* all supplied / last one missing */
        for (t = 0; t < 7; t++) if (!skip_case()) do_recon(&e, &a, dests[t], e.flen);
    }
    enc_release(&e);
    do_destroy(e.desc);
    free(e.data);
}

/* short_len be k m hd w ct len seed : decode and reconstruct told a fragment length SHORTER than a header (0..79), with
 * buffers that really are that short (exact-size heap blocks under ASan, or ending at the guard page): refused with a
 * negative code, nothing read past the length given (C13, C15) */
static void short_len(char **argv)
{
    struct enc e; int n, li, i; static const int Ls[9] = { 0, 1, 40, 58, 59, 60, 71, 79, 4 };
    memset(&e, 0, sizeof e);
    e.be = atoi(argv[1]); e.k = atoi(argv[2]); e.m = atoi(argv[3]); e.hd = atoi(argv[4]);
    int w = atoi(argv[5]); e.ct = atoi(argv[6]); e.len = strtoull(argv[7], 0, 10); e.seed = strtoull(argv[8], 0, 10);
    n = e.k + e.m;
    e.desc = do_create(e.be, e.k, e.m, e.hd, w, e.ct, 0);
    if (e.desc <= 0) return;
    e.data = malloc(e.len + 1); fill_data(e.data, e.len, e.seed);
    if (do_encode(&e, 0) != 0) { do_destroy(e.desc); free(e.data); return; }
    for (li = 0; li < 9; li++) {
        int L = Ls[li], force;
        for (force = 0; force < 2; force++) {
            struct placed pl[MAXN]; char *ptrs[MAXN]; int cnt = 0, drc, rrc; char *out = NULL; uint64_t olen = 0; char *o2;
            long l0 = verif_live;
            if (skip_case()) continue;
            for (i = 1; i < n; i++) { pl[cnt] = place_copy(e.frag[i], (size_t)L, 0); ptrs[cnt] = pl[cnt].ptr; cnt++; }
            ev_begin("ShortLen"); ev_cfg(e.be, e.k, e.m, e.hd, e.ct); ev_int("L", L); ev_int("force", force); ev_int("l0", l0);
            ev_call();
            drc = liberasurecode_decode(e.desc, ptrs, cnt, (uint64_t)L, force, &out, &olen);
            if (drc == 0) liberasurecode_decode_cleanup(e.desc, out);
            o2 = malloc(e.flen + 1);
            shm->incall = 1;
            rrc = liberasurecode_reconstruct_fragment(e.desc, ptrs, cnt, (uint64_t)L, 0, o2);
            free(o2);
            ev_int("drc", drc); ev_int("rrc", rrc); ev_int("l1", verif_live);
            ev_end();
            for (i = 0; i < cnt; i++) placed_free(&pl[i]);
        }
    }
    enc_release(&e);
    do_destroy(e.desc);
    free(e.data);
}

/* one_dec / one_rec be k m hd w ct len seed force|dest nidx idx... off... : a single case (replay) */
static void one_case(int isdec, char **argv)
{
    struct enc e; struct arr a; int i, x;
    memset(&e, 0, sizeof e);
    e.be = atoi(argv[1]); e.k = atoi(argv[2]); e.m = atoi(argv[3]); e.hd = atoi(argv[4]);
    int w = atoi(argv[5]); e.ct = atoi(argv[6]); e.len = strtoull(argv[7], 0, 10); e.seed = strtoull(argv[8], 0, 10);
    x = atoi(argv[9]); a.n = atoi(argv[10]);
    for (i = 0; i < a.n; i++) { a.idx[i] = atoi(argv[11 + i]); a.off[i] = atoi(argv[11 + a.n + i]); }
    e.desc = do_create(e.be, e.k, e.m, e.hd, w, e.ct, 0);
    if (e.desc <= 0) return;
    e.data = malloc(e.len + 1); fill_data(e.data, e.len, e.seed);
    if (do_encode(&e, 0) == 0) {
        if (isdec) do_decode(&e, &a, x, e.flen, NULL); else do_recon(&e, &a, x, e.flen);
        enc_release(&e);
    }
    do_destroy(e.desc);
    free(e.data);
}

/* one_need be k m hd w nR R... nX X... : a single fragments_needed case (replay) */
static void one_need(char **argv)
{
    struct enc e; int L[16], nR, nX, i;
    memset(&e, 0, sizeof e);
    e.be = atoi(argv[1]); e.k = atoi(argv[2]); e.m = atoi(argv[3]); e.hd = atoi(argv[4]); e.ct = 1;
    int w = atoi(argv[5]); nR = atoi(argv[6]);
    for (i = 0; i < nR && i < 8; i++) L[i] = atoi(argv[7 + i]);
    nX = atoi(argv[7 + nR]);
    for (i = 0; i < nX && nR + i < 16; i++) L[nR + i] = atoi(argv[8 + nR + i]);
    e.desc = do_create(e.be, e.k, e.m, e.hd, w, e.ct, 0);
    if (e.desc <= 0) return;
    need_case(&e, L, nR + nX, nR);
    do_destroy(e.desc);
}

static int tok_desc(const char *t);
#include "ecdrive_wire.inc"
#include "ecdrive_hist.inc"

/* ------------------------------------------------------------------ interpreter */
static int split(char *line, char **argv, int max)
{
    int n = 0; char *p = line;
    while (*p && n < max) {
        while (*p == ' ' || *p == '\t' || *p == '\n') p++;
        if (!*p) break;
        argv[n++] = p;
        while (*p && *p != ' ' && *p != '\t' && *p != '\n') p++;
        if (*p) *p++ = 0;
    }
    return n;
}

/* ---- history commands executed on other threads, strictly one after the other ("t1 <cmd>", "t2 <cmd>", "t3 <cmd>"):
 * the recorded history stays sequential, so the same trace specification applies; what changes is WHICH thread makes
 * each call (C14 is stated over any sequence of calls; per-thread caches and thread-affine state show here) ---- */
#include <pthread.h>
static struct worker { pthread_t th; int started, has, done, argc, rc; char **argv; pthread_mutex_t mu; pthread_cond_t cv; } wk[4];
int g_thr;
static int hist_cmd(int argc, char **argv);
static void *wk_main(void *a)
{
    struct worker *w = a;
    pthread_mutex_lock(&w->mu);
    for (;;) {
        while (!w->has) pthread_cond_wait(&w->cv, &w->mu);
        w->has = 0;
        w->rc = hist_cmd(w->argc, w->argv);
        w->done = 1;
        pthread_cond_broadcast(&w->cv);
    }
    return NULL;
}
static int on_thread(int n, int argc, char **argv)
{
    struct worker *w = &wk[n]; int rc;
    if (!w->started) { pthread_mutex_init(&w->mu, NULL); pthread_cond_init(&w->cv, NULL); w->started = 1; pthread_create(&w->th, NULL, wk_main, w); }
    pthread_mutex_lock(&w->mu);
    g_thr = n;
    w->argc = argc; w->argv = argv; w->done = 0; w->has = 1;
    pthread_cond_broadcast(&w->cv);
    while (!w->done) pthread_cond_wait(&w->cv, &w->mu);
    rc = w->rc; g_thr = 0;
    pthread_mutex_unlock(&w->mu);
    return rc;
}

static int run_script(const char *path)
{
    FILE *f = fopen(path, "r"); char *line = NULL; size_t cap = 0; long idx = 0; char *argv[4096]; int argc;
    int skipping_to_reset = 0;
    if (!f) { perror(path); return 2; }
    while (getline(&line, &cap, f) > 0) {
        idx++;
        if (idx < resume_cmd) continue;
        argc = split(line, argv, 4096);
        if (argc == 0 || argv[0][0] == '#') continue;
        if (idx == resume_cmd && resume_sub == -2) {      /* history command faulted: skip to next reset */
            skipping_to_reset = 1; continue;
        }
        if (skipping_to_reset) { if (strcmp(argv[0], "reset") != 0) continue; skipping_to_reset = 0; }
        shm->cmd = idx; shm->sub = -1;
        if (!strcmp(argv[0], "sweep_dec")) sweep_dec(argc, argv);
        else if (!strcmp(argv[0], "sweep_need")) sweep_need(argc, argv);
        else if (!strcmp(argv[0], "sweep_need_len")) { g_need_onlylen = 1; sweep_need(argc, argv); g_need_onlylen = 0; }
        else if (!strcmp(argv[0], "oob_dest")) oob_dest(argv);
        else if (!strcmp(argv[0], "short_len")) short_len(argv);
        else if (!strcmp(argv[0], "one_dec")) one_case(1, argv);
        else if (!strcmp(argv[0], "one_rec")) one_case(0, argv);
        else if (!strcmp(argv[0], "one_need")) one_need(argv);
        else if (argc > 1 && argv[0][0] == 't' && argv[0][1] >= '1' && argv[0][1] <= '3' && !argv[0][2]) {
            if (!on_thread(argv[0][1] - '0', argc - 1, argv + 1)) { fprintf(stderr, "ecdrive: unknown command %s\n", argv[1]); return 2; }
        }
        else if (wire_cmd(argc, argv)) ;
        else if (hist_cmd(argc, argv)) ;
        else { fprintf(stderr, "ecdrive: unknown command %s\n", argv[0]); return 2; }
    }
    fclose(f);
    return 0;
}

int main(int argc, char **argv)
{
    const char *script, *out; char errpath[4096]; int restarts = 0, real_faults = 0, last_nullderef = 0;
    int max_faults = getenv("VERIF_MAX_FAULTS") ? atoi(getenv("VERIF_MAX_FAULTS")) : 60;
    if (argc < 3) { fprintf(stderr, "usage: ecdrive script events.ndjson [guard]\n"); return 2; }
    script = argv[1]; out = argv[2];
    g_guard = argc > 3 && !strcmp(argv[3], "guard");
    pagesz = sysconf(_SC_PAGESIZE);
    bind_internals();
    shm = mmap(NULL, sizeof *shm, PROT_READ | PROT_WRITE, MAP_SHARED | MAP_ANONYMOUS, -1, 0);
    memset((void *)shm, 0, sizeof *shm);
    snprintf(errpath, sizeof errpath, "%s.stderr", out);
    { FILE *t = fopen(out, "w"); if (!t) { perror(out); return 2; } fclose(t); }
    { FILE *t = fopen(errpath, "w"); if (t) fclose(t); }
    for (;;) {
        pid_t pid = fork(); int st;
        if (pid == 0) {
            int fd = open(errpath, O_WRONLY | O_APPEND | O_CREAT, 0644);
            if (fd >= 0) { dup2(fd, 2); close(fd); }
            evf = fopen(out, "a");
            setvbuf(evf, NULL, _IOFBF, 1 << 16);
            int rc = run_script(script);
            fflush(evf);
            _exit(rc);                     /* skip atexit/LSan of the worker: leaks are the ledger's job */
        }
        waitpid(pid, &st, 0);
        if (WIFEXITED(st) && WEXITSTATUS(st) == 0) break;
        if (WIFEXITED(st) && WEXITSTATUS(st) == 2 && !shm->incall) { fprintf(stderr, "ecdrive: script error\n"); return 2; }
        /* the worker died: record a Fault event */
        {
            FILE *o = fopen(out, "a"); char how[64]; char tail[1500]; size_t tn = 0;
            FILE *ef = fopen(errpath, "r");
            if (WIFSIGNALED(st)) snprintf(how, sizeof how, "sig%d", WTERMSIG(st));
            else snprintf(how, sizeof how, "exit%d", WEXITSTATUS(st));
            tail[0] = 0;
            if (ef) {
                char *l = NULL; size_t c = 0; int skip_summary = 0;
                while (getline(&l, &c, ef) > 0) {
                    /* the two kinds of undefined behaviour UBSan only reports and continues from (information, not the
                     * reason of this death) would otherwise fill the excerpt: keep the LAST reports */
                    if (strstr(l, "runtime error:") && (strstr(l, "cannot be represented in type") || strstr(l, "signed integer overflow"))) { skip_summary = 1; continue; }
                    if (skip_summary && strstr(l, "SUMMARY: UndefinedBehaviorSanitizer")) { skip_summary = 0; continue; }
                    skip_summary = 0;
                    if (strstr(l, "ERROR:") || strstr(l, "runtime error:") || strstr(l, "SUMMARY:") || strstr(l, "LEDGER:")) {
                        size_t i, ll = strlen(l);
                        if (tn + ll + 2 > 1200) {             /* drop the oldest half */
                            size_t cut = tn / 2; memmove(tail, tail + cut, tn - cut); tn -= cut;
                        }
                        for (i = 0; l[i] && tn < sizeof tail - 2; i++) {
                            char ch = l[i];
                            if (ch == '"' || ch == '\\' || (unsigned char)ch < 32) ch = ' ';
                            tail[tn++] = ch;
                        }
                        tail[tn++] = '|'; tail[tn] = 0;
                    }
                }
                free(l); fclose(ef);
                ef = fopen(errpath, "w"); if (ef) fclose(ef);
            }
            {
                /* a NULL dereference (unchecked allocation result) is told apart from other faults */
                int nullderef = strstr(tail, "null pointer") != NULL || strstr(tail, "address 0x00000000") != NULL;
                if (strstr(tail, "use-after-free") || strstr(tail, "double-free") || strstr(tail, "buffer-overflow")) nullderef = 0;
                last_nullderef = nullderef;
                fprintf(o, "{\"e\":\"Fault\",\"how\":\"%s\",\"cmd\":%ld,\"sub\":%ld,\"incall\":%d,\"nullderef\":%d,\"msg\":\"%s\",\"in\":%s}}\n",
                        how, shm->cmd, shm->sub, shm->incall, nullderef, tail, shm->incall && shm->prefix[0] ? shm->prefix : "{\"e\":\"none\"");
            }
            fclose(o);
            shm->events++;
        }
        resume_cmd = shm->cmd;
        resume_sub = shm->sub >= 0 ? shm->sub : -2;
        if (resume_sub == -2) resume_cmd = shm->cmd;
        shm->incall = 0;
        if (++restarts > 200000) { fprintf(stderr, "ecdrive: too many faults\n"); return 3; }
        /* a change that makes the library crash tends to crash it on thousands of cases: after a number of real faults
         * (not the NULL dereferences under injected allocation failure) the rest of this script adds nothing but time */
        if (!last_nullderef && ++real_faults >= max_faults) {
            FILE *o = fopen(out, "a");
            if (o) { fprintf(o, "{\"e\":\"FaultCap\",\"faults\":%d,\"cmd\":%ld}\n", real_faults, shm->cmd); fclose(o); }
            break;
        }
    }
    fprintf(stdout, "events=%ld calls=%ld restarts=%d\n", shm->events, shm->calls, restarts);
    return 0;
}
