/* Lock observation: the library variants are compiled with
 *   -Dpthread_rwlock_rdlock=verif_rdlock -Dpthread_rwlock_wrlock=verif_wrlock -Dpthread_rwlock_unlock=verif_rwunlock
 *   -Dpthread_mutex_lock=verif_mutex_lock -Dpthread_mutex_unlock=verif_mutex_unlock
 * (no source change), so that every yield event can carry the locks its thread really holds:
 * bit0 registry lock shared, bit1 registry lock exclusive, bit2 a mutex (GF tables). */
#define _GNU_SOURCE
#include <pthread.h>
static __thread int held;
int verif_rdlock(pthread_rwlock_t *l) { int r = pthread_rwlock_rdlock(l); if (!r) held |= 1; return r; }
int verif_wrlock(pthread_rwlock_t *l) { int r = pthread_rwlock_wrlock(l); if (!r) held |= 2; return r; }
int verif_rwunlock(pthread_rwlock_t *l) { held &= ~3; return pthread_rwlock_unlock(l); }
int verif_mutex_lock(pthread_mutex_t *m) { int r = pthread_mutex_lock(m); if (!r) held |= 4; return r; }
int verif_mutex_unlock(pthread_mutex_t *m) { held &= ~4; return pthread_mutex_unlock(m); }
int verif_held(void) { return held; }
