/* include/config_liberasurecode.h.  Generated from config_liberasurecode.h.in by configure.  */
/* include/config_liberasurecode.h.in.  Generated from configure.ac by autoheader.  */

/* Define to 1 if you have the `calloc' function. */
#define HAVE_CALLOC 1

/* Define to 1 if you have the <ctype.h> header file. */
#define HAVE_CTYPE_H 1

/* Define to 1 if you have the <dlfcn.h> header file. */
#define HAVE_DLFCN_H 1

/* Define to 1 if you have the <errno.h> header file. */
#define HAVE_ERRNO_H 1

/* Define to 1 if you have the `free' function. */
#define HAVE_FREE 1

/* Define to 1 if you have the <iconv.h> header file. */
#define HAVE_ICONV_H 1

/* Define to 1 if you have the <inttypes.h> header file. */
#define HAVE_INTTYPES_H 1

/* Define to 1 if you have the <limits.h> header file. */
#define HAVE_LIMITS_H 1

/* Define to 1 if you have the `malloc' function. */
#define HAVE_MALLOC 1

/* Define to 1 if you have the <malloc.h> header file. */
#define HAVE_MALLOC_H 1

/* Define to 1 if you have the <memory.h> header file. */
#define HAVE_MEMORY_H 1

/* Define to 1 if you have the <minix/config.h> header file. */
/* #undef HAVE_MINIX_CONFIG_H */

/* Define to 1 if you have the `openlog' function. */
#define HAVE_OPENLOG 1

/* Define to 1 if you have the <pthread.h> header file. */
#define HAVE_PTHREAD_H 1

/* Define to 1 if you have the `realloc' function. */
#define HAVE_REALLOC 1

/* Define to 1 if you have the <signal.h> header file. */
#define HAVE_SIGNAL_H 1

/* Define to 1 if you have the <stdarg.h> header file. */
#define HAVE_STDARG_H 1

/* Define to 1 if you have the <stddef.h> header file. */
#define HAVE_STDDEF_H 1

/* Define to 1 if you have the <stdint.h> header file. */
#define HAVE_STDINT_H 1

/* Define to 1 if you have the <stdio.h> header file. */
#define HAVE_STDIO_H 1

/* Define to 1 if you have the <stdlib.h> header file. */
#define HAVE_STDLIB_H 1

/* Define to 1 if you have the <strings.h> header file. */
#define HAVE_STRINGS_H 1

/* Define to 1 if you have the <string.h> header file. */
#define HAVE_STRING_H 1

/* Define to 1 if you have the <syslog.h> header file. */
#define HAVE_SYSLOG_H 1

/* Define to 1 if you have the <sys/stat.h> header file. */
#define HAVE_SYS_STAT_H 1

/* Define to 1 if you have the <sys/types.h> header file. */
#define HAVE_SYS_TYPES_H 1

/* Define to 1 if you have the <unistd.h> header file. */
#define HAVE_UNISTD_H 1

/* Define to 1 if you have the <wchar.h> header file. */
#define HAVE_WCHAR_H 1

/* Define to the sub-directory where libtool stores uninstalled libraries. */
#define LT_OBJDIR ".libs/"

/* Name of package */
#define PACKAGE "liberasurecode"

/* Define to the address where bug reports for this package should be sent. */
#define PACKAGE_BUGREPORT "tusharsg AT gmail DOT com, kmgreen2 AT gmail DOT com"

/* Define to the full name of this package. */
#define PACKAGE_NAME "liberasurecode"

/* Define to the full name and version of this package. */
#define PACKAGE_STRING "liberasurecode -"

/* Define to the one symbol short name of this package. */
#define PACKAGE_TARNAME "liberasurecode"

/* Define to the home page for this package. */
#define PACKAGE_URL "https://github.com/openstack/liberasurecode"

/* Define to the version of this package. */
#define PACKAGE_VERSION "-"

/* The size of `long', as computed by sizeof. */
#define SIZEOF_LONG 8

/* Define to 1 if all of the C90 standard headers exist (not just the ones
   required in a freestanding environment). This macro is provided for
   backward compatibility; new code need not use it. */
#define STDC_HEADERS 1

/* Enable extensions on AIX 3, Interix.  */
#ifndef _ALL_SOURCE
# define _ALL_SOURCE 1
#endif
/* Enable general extensions on macOS.  */
#ifndef _DARWIN_C_SOURCE
# define _DARWIN_C_SOURCE 1
#endif
/* Enable general extensions on Solaris.  */
#ifndef __EXTENSIONS__
# define __EXTENSIONS__ 1
#endif
/* Enable GNU extensions on systems that have them.  */
#ifndef _GNU_SOURCE
# define _GNU_SOURCE 1
#endif
/* Enable X/Open compliant socket functions that do not require linking
   with -lxnet on HP-UX 11.11.  */
#ifndef _HPUX_ALT_XOPEN_SOCKET_API
# define _HPUX_ALT_XOPEN_SOCKET_API 1
#endif
/* Identify the host operating system as Minix.
   This macro does not affect the system headers' behavior.
   A future release of Autoconf may stop defining this macro.  */
#ifndef _MINIX
/* # undef _MINIX */
#endif
/* Enable general extensions on NetBSD.
   Enable NetBSD compatibility extensions on Minix.  */
#ifndef _NETBSD_SOURCE
# define _NETBSD_SOURCE 1
#endif
/* Enable OpenBSD compatibility extensions on NetBSD.
   Oddly enough, this does nothing on OpenBSD.  */
#ifndef _OPENBSD_SOURCE
# define _OPENBSD_SOURCE 1
#endif
/* Define to 1 if needed for POSIX-compatible behavior.  */
#ifndef _POSIX_SOURCE
/* # undef _POSIX_SOURCE */
#endif
/* Define to 2 if needed for POSIX-compatible behavior.  */
#ifndef _POSIX_1_SOURCE
/* # undef _POSIX_1_SOURCE */
#endif
/* Enable POSIX-compatible threading on Solaris.  */
#ifndef _POSIX_PTHREAD_SEMANTICS
# define _POSIX_PTHREAD_SEMANTICS 1
#endif
/* Enable extensions specified by ISO/IEC TS 18661-5:2014.  */
#ifndef __STDC_WANT_IEC_60559_ATTRIBS_EXT__
# define __STDC_WANT_IEC_60559_ATTRIBS_EXT__ 1
#endif
/* Enable extensions specified by ISO/IEC TS 18661-1:2014.  */
#ifndef __STDC_WANT_IEC_60559_BFP_EXT__
# define __STDC_WANT_IEC_60559_BFP_EXT__ 1
#endif
/* Enable extensions specified by ISO/IEC TS 18661-2:2015.  */
#ifndef __STDC_WANT_IEC_60559_DFP_EXT__
# define __STDC_WANT_IEC_60559_DFP_EXT__ 1
#endif
/* Enable extensions specified by ISO/IEC TS 18661-4:2015.  */
#ifndef __STDC_WANT_IEC_60559_FUNCS_EXT__
# define __STDC_WANT_IEC_60559_FUNCS_EXT__ 1
#endif
/* Enable extensions specified by ISO/IEC TS 18661-3:2015.  */
#ifndef __STDC_WANT_IEC_60559_TYPES_EXT__
# define __STDC_WANT_IEC_60559_TYPES_EXT__ 1
#endif
/* Enable extensions specified by ISO/IEC TR 24731-2:2010.  */
#ifndef __STDC_WANT_LIB_EXT2__
# define __STDC_WANT_LIB_EXT2__ 1
#endif
/* Enable extensions specified by ISO/IEC 24747:2009.  */
#ifndef __STDC_WANT_MATH_SPEC_FUNCS__
# define __STDC_WANT_MATH_SPEC_FUNCS__ 1
#endif
/* Enable extensions on HP NonStop.  */
#ifndef _TANDEM_SOURCE
# define _TANDEM_SOURCE 1
#endif
/* Enable X/Open extensions.  Define to 500 only if necessary
   to make mbstate_t available.  */
#ifndef _XOPEN_SOURCE
/* # undef _XOPEN_SOURCE */
#endif


/* Version number of package */
#define VERSION "-"
