/* Allocation ledger: the library variants are compiled with
 *   -Dmalloc=verif_malloc -Dcalloc=verif_calloc -Dfree=verif_free
 *   -Dposix_memalign=verif_posix_memalign -Dstrdup=verif_strdup
 * (no source change), so every block the library owns is known here.
 * The driver reads the counters before/after every public call and logs
 * them; the trace specification checks the relative rules R1..R6 (C16). */
#define _GNU_SOURCE
#include <stdlib.h>
#include <string.h>
#include <stdio.h>
#include <pthread.h>

long verif_allocs, verif_frees, verif_live, verif_foreign_free;
long verif_alloc_seq;          /* number of allocation requests so far            */
long verif_fail_alloc_at;      /* if >0: the request with this sequence no. fails */
long verif_fail_alloc_count;   /* how many requests were made to fail             */

#define MAXP 4000037
static void *tab[MAXP];
static pthread_mutex_t mu = PTHREAD_MUTEX_INITIALIZER;

static void ins(void *p)
{
    size_t h = ((size_t)p >> 4) % MAXP;
    while (tab[h] && tab[h] != (void *)1) h = (h + 1) % MAXP;
    tab[h] = p;
}
static int has(void *p)
{
    size_t h = ((size_t)p >> 4) % MAXP, n = 0;
    while (tab[h] && n < MAXP) { if (tab[h] == p) return 1; h = (h + 1) % MAXP; n++; }
    return 0;
}
static int del(void *p)
{
    size_t h = ((size_t)p >> 4) % MAXP, n = 0;
    while (tab[h] && n < MAXP) {
        if (tab[h] == p) { tab[h] = (void *)1; return 1; }
        h = (h + 1) % MAXP; n++;
    }
    return 0;
}
/* Fresh blocks are filled with a pattern that changes from allocation to allocation and freed blocks are
 * overwritten: any use of uninitialised or stale heap memory by the library then shows up as bytes that
 * depend on the process history (C15, C07) instead of being masked by a freshly zeroed heap. */
#include <malloc.h>
static void scribble(void *p, size_t n)
{
    if (p && n) memset(p, (int)(0xA5 ^ ((verif_alloc_seq * 37) & 0x7f)), n);
}
static void note(void *p)
{
    if (!p) return;
    pthread_mutex_lock(&mu);
    verif_allocs++; verif_live++; ins(p);
    pthread_mutex_unlock(&mu);
}
static int should_fail(void)
{
    int f;
    pthread_mutex_lock(&mu);
    verif_alloc_seq++;
    f = (verif_fail_alloc_at > 0 && verif_alloc_seq == verif_fail_alloc_at);
    if (f) verif_fail_alloc_count++;
    pthread_mutex_unlock(&mu);
    return f;
}
void *verif_malloc(size_t n)
{
    void *p;
    if (should_fail()) return NULL;
    p = malloc(n ? n : 1); scribble(p, n); note(p); return p;
}
void *verif_calloc(size_t a, size_t b)
{
    void *p;
    if (should_fail()) return NULL;
    p = calloc(a ? a : 1, b ? b : 1); note(p); return p;
}
int verif_posix_memalign(void **pp, size_t al, size_t n)
{
    int r;
    if (should_fail()) return 12;
    r = posix_memalign(pp, al, n ? n : 1);
    if (!r) { scribble(*pp, n); note(*pp); }
    return r;
}
char *verif_strdup(const char *s)
{
    char *p;
    if (should_fail()) return NULL;
    p = strdup(s); note(p); return p;
}
void verif_free(void *p)
{
    int known;
    if (!p) return;
    pthread_mutex_lock(&mu);
    known = del(p);
    if (known) { verif_frees++; verif_live--; } else verif_foreign_free++;
    pthread_mutex_unlock(&mu);
    if (known) { memset(p, 0xDD, malloc_usable_size(p)); free(p); }
    else if (!getenv("VERIF_LEDGER_QUIET")) fprintf(stderr, "LEDGER: free of a pointer the library does not own (%p)\n", p);
}

int verif_owns(void *p)
{
    int r;
    pthread_mutex_lock(&mu); r = p && has(p); pthread_mutex_unlock(&mu);
    return r;
}

/* The library logs every refusal through syslog(3); with no syslogd in the sandbox each call
 * costs ~2 ms (connect + console fallback).  Logging is not part of any property, so the
 * harness interposes no-op versions (this library precedes libc in the link order). */
#include <stdarg.h>
long verif_syslog_calls;
void openlog(const char *ident, int option, int facility) { (void)ident; (void)option; (void)facility; }
void closelog(void) { }
void syslog(int pri, const char *fmt, ...) { (void)pri; (void)fmt; verif_syslog_calls++; }
void vsyslog(int pri, const char *fmt, va_list ap) { (void)pri; (void)fmt; (void)ap; verif_syslog_calls++; }
void __syslog_chk(int pri, int flag, const char *fmt, ...) { (void)pri; (void)flag; (void)fmt; verif_syslog_calls++; }
