/* Clean-room reference implementation of the five ISA-L erasure-code primitives
 * used by liberasurecode (documented semantics only; GF(2^8), polynomial 0x11d).
 * Verif-owned: lets the isa_l_rs_vand / isa_l_rs_cauchy adapters execute offline. */
#include <string.h>
#include <stdlib.h>
int refisal_fail_invert_at = 0;      /* test knob: n-th call to gf_invert_matrix fails (1-based), 0 = never */
int refisal_invert_calls = 0;
unsigned char gf_mul(unsigned char a, unsigned char b)
{
    unsigned int p = 0, aa = a, bb = b;
    while (bb) { if (bb & 1) p ^= aa; aa <<= 1; if (aa & 0x100) aa ^= 0x11d; bb >>= 1; }
    return (unsigned char)p;
}
unsigned char gf_inv(unsigned char a)
{
    unsigned char r = 1, x = a; int e = 254;           /* a^(2^8-2) */
    if (a == 0) return 0;
    while (e) { if (e & 1) r = gf_mul(r, x); x = gf_mul(x, x); e >>= 1; }
    return r;
}
void gf_gen_rs_matrix(unsigned char *a, int m, int k)
{
    int i, j; unsigned char p, gen = 1;
    memset(a, 0, k * m);
    for (i = 0; i < k; i++) a[k * i + i] = 1;
    for (i = k; i < m; i++) { p = 1; for (j = 0; j < k; j++) { a[k * i + j] = p; p = gf_mul(p, gen); } gen = gf_mul(gen, 2); }
}
void gf_gen_cauchy1_matrix(unsigned char *a, int m, int k)
{
    int i, j; unsigned char *p;
    memset(a, 0, k * m);
    for (i = 0; i < k; i++) a[k * i + i] = 1;
    p = &a[k * k];
    for (i = k; i < m; i++) for (j = 0; j < k; j++) *p++ = gf_inv(i ^ j);
}
int gf_invert_matrix(unsigned char *in, unsigned char *out, const int n)
{
    int i, j, k; unsigned char temp;
    if (refisal_fail_invert_at && ++refisal_invert_calls == refisal_fail_invert_at) return -1;
    for (i = 0; i < n * n; i++) out[i] = 0;
    for (i = 0; i < n; i++) out[i * n + i] = 1;
    for (i = 0; i < n; i++) {
        if (in[i * n + i] == 0) {
            for (j = i + 1; j < n; j++) if (in[j * n + i]) break;
            if (j == n) return -1;
            for (k = 0; k < n; k++) { temp = in[i*n+k]; in[i*n+k] = in[j*n+k]; in[j*n+k] = temp;
                                      temp = out[i*n+k]; out[i*n+k] = out[j*n+k]; out[j*n+k] = temp; }
        }
        temp = gf_inv(in[i * n + i]);
        for (j = 0; j < n; j++) { in[i*n+j] = gf_mul(in[i*n+j], temp); out[i*n+j] = gf_mul(out[i*n+j], temp); }
        for (j = 0; j < n; j++) { if (j == i) continue; temp = in[j*n+i];
            for (k = 0; k < n; k++) { out[j*n+k] ^= gf_mul(temp, out[i*n+k]); in[j*n+k] ^= gf_mul(temp, in[i*n+k]); } }
    }
    return 0;
}
/* 32 bytes per coefficient: products with the 16 low-nibble and 16 high-nibble values */
void ec_init_tables(int k, int rows, unsigned char *a, unsigned char *g_tbls)
{
    int i, j, t;
    for (i = 0; i < rows; i++) for (j = 0; j < k; j++) { unsigned char c = a[i * k + j];
        for (t = 0; t < 16; t++) { g_tbls[t] = gf_mul(c, t); g_tbls[16 + t] = gf_mul(c, t << 4); } g_tbls += 32; }
}
void ec_encode_data(int len, int k, int rows, unsigned char *g_tbls, unsigned char **data, unsigned char **coding)
{
    int i, j, l;
    for (l = 0; l < rows; l++) for (i = 0; i < len; i++) { unsigned char s = 0;
        for (j = 0; j < k; j++) { unsigned char *t = &g_tbls[(l * k + j) * 32]; unsigned char d = data[j][i]; s ^= t[d & 15] ^ t[16 + (d >> 4)]; }
        coding[l][i] = s; }
}
