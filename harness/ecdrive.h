/* ecdrive: scripted driver for liberasurecode that logs one ndjson event per
 * public call (at its return) and survives crashes of the library.
 * Shared declarations for the driver's translation units. */
#ifndef ECDRIVE_H
#define ECDRIVE_H
#include <stdio.h>
#include <stdlib.h>
#include <string.h>
#include <stdint.h>
#include <unistd.h>
#include <errno.h>
#include <signal.h>
#include <sys/mman.h>
#include <sys/wait.h>
#include <erasurecode.h>
#include <erasurecode_backend.h>
#include <erasurecode_helpers.h>
#include <erasurecode_helpers_ext.h>
#include <alg_sig.h>
#include <xor_code.h>
#include <stddef.h>

#define MAXN 64

struct shm {
    volatile long cmd;       /* index of the script command being executed      */
    volatile long sub;       /* sub-case inside a sweep command                  */
    volatile int  incall;    /* a library call is in progress                    */
    volatile long events;    /* events written so far                            */
    volatile long calls;     /* library calls made                               */
    char prefix[1 << 16];    /* event prefix of the call in progress             */
};
extern struct shm *shm;
extern FILE *evf;
extern int g_guard;          /* place caller inputs on guard-page protected maps */

/* ---- event writer ---- */
void ev_begin(const char *name);
void ev_int(const char *k, long long v);
void ev_u32(const char *k, uint32_t v);     /* as [hi16, lo16] */
void ev_u64(const char *k, uint64_t v);     /* as [w3,w2,w1,w0] 16-bit limbs */
void ev_str(const char *k, const char *s);
void ev_arr(const char *k, const int *a, int n);
void ev_bytes(const char *k, const unsigned char *p, long n);
void ev_call(void);           /* publish prefix: a library call starts now     */
void ev_end(void);            /* write the event line                           */

/* ---- ledger (libverifledger) ---- */
extern long verif_allocs, verif_frees, verif_live, verif_foreign_free;
extern long verif_alloc_seq, verif_fail_alloc_at, verif_fail_alloc_count;

/* ---- prng ---- */
uint64_t rnd_next(uint64_t *s);
void fill_data(unsigned char *p, uint64_t len, uint64_t seed);

/* ---- buffers handed to the library ---- */
struct placed { char *ptr; char *base; size_t maplen; int guarded; };
struct placed place_copy(const char *src, size_t len, int off);
void placed_protect(struct placed *p, int on);
void placed_free(struct placed *p);

uint32_t dig32(const unsigned char *p, size_t n);

#endif
