"""Group B: wire format and acceptance predicates -- C07..C12, C20."""
import json, os
from . import core
from .core import Check, tlc, run_sweeps, validate
from .shapes import *
from .checks_codes import _collect, _seed_of, _finish_codes, _bg, _join, sweep_cmd

LEGACY_VALUES = [None, "", "0", "1", "yes", "00", "01"]


def wire_configs(thorough):
    cfgs = [(BE_RS, 4, 2, 2), (BE_XOR, 3, 3, 3), (BE_ISAL_VAND, 4, 2, 2), (BE_ISAL_CAUCHY, 5, 3, 3), (BE_NULL, 4, 2, 2),
            (BE_XOR, 10, 6, 4), (BE_RS, 1, 1, 1), (BE_RS, 10, 4, 4), (BE_RS, 20, 12, 12)]
    if thorough:
        cfgs += [(BE_XOR, k, m, hd) for (k, m, hd) in XOR_TABLES[1:38:3]]
        cfgs += [(BE_RS, k, m, m) for (k, m) in [(2, 3), (3, 1), (7, 5), (16, 16), (31, 1), (1, 31), (12, 4), (5, 2)]]
        cfgs += [(BE_ISAL_VAND, 10, 4, 4), (BE_ISAL_CAUCHY, 12, 6, 6), (BE_ISAL_CAUCHY, 1, 1, 1)]
    return cfgs


def enc_cmd(be, k, m, hd, ct, length, seed, bytes_, w=None):
    return "enc_bytes %d %d %d %d %d %d %d %d %d" % (be, k, m, hd, WORD[be] if w is None else w, ct, length, seed, bytes_)


# word sizes a caller may pass besides the backend's own: the wire format and the sizes are functions of
# (backend, k, m, hd, checksum type, data) only, so an instance that is accepted with another w must produce the same
# bytes and the same sizes (refusing the configuration is fine too)
OTHER_W = {BE_RS: [8, 32, 64, 4], BE_XOR: [8, 16, 64, 4], BE_NULL: [8, 16]}


def hdr_cmd(be, k, m, hd, ct, length, seed, fams, count):
    return "hdr_mut %d %d %d %d %d %d %d %d %d %d" % (be, k, m, hd, WORD[be], ct, length, seed, fams, count)


def _run(chk, cmds, name, prefixes, env=None, variant="asan", module="TraceWire", max_lines=1500, guard=False):
    files, events, restarts = run_sweeps(variant, cmds, name, env=env, guard=guard)
    v = validate(module, files, max_lines=max_lines)
    _collect(chk, v, prefixes)
    return v, files


def _add_counts(tot, v):
    c = v.counts or [0] * 14
    return [a + b for a, b in zip(tot, c)]


def c07():
    chk = Check("C07")
    thorough = chk.tier == "thorough"
    tot = [0] * 14
    own = ["C07", "C08 fragment length", "fault", "create failed"]
    sample_files = []
    for li, leg in enumerate(LEGACY_VALUES if thorough else [None, "1", "0", "00"]):
        cmds = ["layout"]
        for ci, (be, k, m, hd) in enumerate(wire_configs(thorough)):
            a = align(be, k)
            top = min(4 * a + 1, 256) if be != BE_RS or k < 10 else 2 * a + 1
            dense = range(0, top + 1) if (thorough or (ci < 3 and li == 0)) else \
                sorted(set([0, 1, a - 1, a, a + 1, 2 * a - 1, 3 * a + 7, top] + list(range(ci % 5, top, 7))))
            for L in dense:
                if L < 0:
                    continue
                for ct in ((1, 2) if (thorough or L % 3 == 0) else (1 + (L + ci) % 2,)):
                    # every fourth stripe is encoded (and rebuilt) a second time after the legacy switch has been given
                    # the other meaning inside the same process
                    other = ""
                    if (L + ci) % 4 == 0:
                        other = " -" if leg not in (None, "", "0") else (" 1" if (ci + L) % 8 else " yes")
                    cmds.append(enc_cmd(be, k, m, hd, ct, L, _seed_of(chk, L + ci * 1000), 1) + other)
            if li == 0:
                # checksum-type values other than none / CRC32 that create accepts: type byte as given, checksum words zero
                for ct_ in (3, 0):
                    for L in (1, 2 * a + 3):
                        cmds.append(enc_cmd(be, k, m, hd, ct_, L, _seed_of(chk, L + ci * 1000 + ct_), 1))
                for wi, w_ in enumerate(OTHER_W.get(be, [])):
                    for L in (1, a + 1, 3 * a + 7, 100 + ci):
                        cmds.append(enc_cmd(be, k, m, hd, 1 + (wi + L) % 2, L, _seed_of(chk, L + ci * 1000 + wi), 1, w=w_))
            # large inputs: header bytes + data-slice property on the real bytes
            for j, L in enumerate([65536 + ci, (1 << 20) - ci] if (thorough or ci < 4) else [40000 + ci]):
                cmds.append(enc_cmd(be, k, m, hd, 2 - (j % 2), L, _seed_of(chk, 77 + j), 2))
            # payloads above 1 MiB per fragment (checksums computed piecewise), CRC32
            if li == 0 and ci in (0, 1, 6):
                cmds.append(enc_cmd(be, k, m, hd, 2, k * ((1 << 20) + 2 + 4 * ci) + 1, _seed_of(chk, 99 + ci), 2))
        env = {} if leg is None else {"LIBERASURECODE_WRITE_LEGACY_CRC": leg}
        v, files = _run(chk, cmds, "C07-%d" % li, own, env=env, max_lines=600)
        tot = _add_counts(tot, v)
        sample_files += files
    # the same byte-for-byte comparison on the production configuration (gcc -O2, hooks off), legacy switch on: a
    # sample of the commands (the historical CRC relies on implementation-defined signed shifts)
    gc = [c_ for c_ in cmds if c_.startswith("enc_bytes") and c_.split()[9] == "1"][::7][:60]
    vg, fg = _run(chk, gc, "C07-gcc", own, env={"LIBERASURECODE_WRITE_LEGACY_CRC": "1"}, variant="gcc", max_lines=600)
    chk.parts["gcc_O2_encode_events"] = (vg.counts or [0] * 3)[1]
    m1 = tlc("MC_Wire", "MC_Wire", workers=4, timeout=600, tag="C07")
    chk.add_tlc(m1, "MC_Wire")
    if not m1.ok:
        chk.violation({"event": "model", "cfg": "MC_Wire"}, "Wire bijection lemmas violated: %s" % m1.out[-1500:])
    chk.cov["distinct_nontrivial"] = tot[2]
    chk.parts.update({"encode_events": tot[1], "encode_events_every_byte_compared": tot[2]})
    for f in sample_files[:3]:
        for line in open(f):
            ev = json.loads(line)
            if ev.get("e") == "EncB" and "data" in ev and ev["len"] > 3 and ev["len"] < 20:
                chk.sample({kk: ev[kk] for kk in ("be", "k", "m", "hd", "ct", "len", "legacy", "data", "flen", "rc")} | {"frag0": ev["frags"][0]}, cap=2)
                break
    return _finish_codes(chk,
        "encode events for %d configurations (built-in RS, flat XOR, both ISA-L adapters over the reference plug-in, null), "
        "lengths 0..min(4a+1,256) (%s) with every byte of every fragment compared by TLC with Wire!Fragment (header fields, both "
        "CRC-32s computed bitwise, data slices, XOR / GF(2^16) / GF(2^8) parity), large lengths with header bytes + data-slice "
        "memcmp, checksum types 1 and 2, legacy-CRC switch values %s; compile-time sizeof/offsetof of the header; "
        "non-trivial = encode events whose bytes were all compared" %
        (len(wire_configs(thorough)), "dense" if thorough else "dense for three configurations, class boundaries + stride 7 otherwise",
         LEGACY_VALUES if thorough else [None, "1", "0", "00"]),
        ["TLC", "harness bitwise CRC for payloads > 256 bytes", "ASan/UBSan", "reference ISA-L plug-in"], exhaustive=False)


def c08():
    chk = Check("C08")
    thorough = chk.tier == "thorough"
    cmds = ["size_dead"]
    i = 0
    shapes_ = [(be, k, m, hd) for (be, k, m, hd) in wire_configs(True)] if thorough else wire_configs(False) + \
        [(BE_XOR, 20, 6, 4), (BE_RS, 31, 1, 1), (BE_RS, 16, 16, 16), (BE_ISAL_VAND, 10, 4, 4)]
    import random
    rnd = random.Random(chk.seed)
    for (be, k, m, hd) in shapes_:
        a = align(be, k)
        lens = set(range(0, min(4 * a + 2, 200 if not thorough else 600)))
        for t in range(12 if not thorough else 60):
            base = rnd.randrange(1, 1 << 20)
            base -= base % a
            lens |= {base - 1, base, base + 1}
        lens |= {(1 << 20) - 1, 1 << 20, 65536, 65537, 4096, 4097}
        for L in sorted(lens):
            if L < 0:
                continue
            i += 1
            cmds.append(enc_cmd(be, k, m, hd, 1, L, _seed_of(chk, i), 0))
        for w_ in OTHER_W.get(be, []):
            for L in [0, 1, a - 1, a, a + 1, 2 * a + 3, 1000, 65537]:
                if L >= 0:
                    i += 1
                    cmds.append(enc_cmd(be, k, m, hd, 1, L, _seed_of(chk, i), 0, w=w_))
    v, files = _run(chk, cmds, "C08", ["C08", "C07 encode of", "fault", "create failed"], max_lines=4000)
    c = v.counts or [0] * 14
    m1 = tlc("MC_Wire", "MC_Wire", workers=4, timeout=600, tag="C08")
    chk.add_tlc(m1, "MC_Wire")
    if not m1.ok:
        chk.violation({"event": "model", "cfg": "MC_Wire"}, "size arithmetic lemmas violated: %s" % m1.out[-1500:])
    chk.cov["distinct_nontrivial"] = c[3]
    chk.parts.update({"size_events": c[3], "encode_events": c[1], "dead_descriptor_queries": c[13]})
    for f in files[:2]:
        for line in open(f):
            ev = json.loads(line)
            if ev.get("e") == "Size" and ev["len"] > 0:
                chk.sample(ev, cap=3); break
    return _finish_codes(chk,
        "per configuration every length 0..4a+1 (a = k * word bytes) plus seeded lengths up to 2^20 at, just below and just above "
        "multiples of a: the three size queries and the fragment length encode really produces, compared by TLC with Sizes.tla "
        "(smallest multiple of k*wordbytes >= len; aligned/k; aligned(1)); queries on never-issued and destroyed descriptors; "
        "non-trivial = size-query events", ["TLC", "ASan/UBSan"])


def _hdr_check(prop, fams, prefixes, count_q, count_t, rule, extra_cmds=None, lens=None):
    chk = Check(prop)
    thorough = chk.tier == "thorough"
    cmds = list(extra_cmds(chk, thorough) if extra_cmds else [])
    cfgs = wire_configs(thorough)
    for ci, (be, k, m, hd) in enumerate(cfgs):
        if be == BE_NULL and prop in ("C09",):
            continue
        for ct in (1, 2):
            if not thorough and ct == 1 and ci >= 3 and prop != "C09":
                continue
            LL = lens or [37, 5, 100]
            L = LL[ci % len(LL)]
            cmds.append(hdr_cmd(be, k, m, hd, ct, L, _seed_of(chk, ci * 10 + ct), fams, count_t if thorough else count_q))
    v, files = _run(chk, cmds, prop, prefixes + ["fault", "create failed", "encode failed"], max_lines=500)
    c = v.counts or [0] * 14
    chk.cov["distinct_nontrivial"] = c[4]
    chk.parts.update({"header_events": c[4], "refused_by_metadata_query": c[5], "judged_invalid_for_instance": c[6],
                      "opposite_endian_headers": c[7], "foreign_fragment_events": c[8], "stripe_verifications": c[9],
                      "crc_alt_events": c[10]})
    for f in files[:3]:
        for line in open(f):
            ev = json.loads(line)
            if ev.get("e") == "Hdr" and ev.get("fam") not in ("none",):
                chk.sample({kk: ev[kk] for kk in ev if kk not in ("ohdr",)}, cap=2); break
    return chk, v, files, rule


def c09():
    chk, v, files, rule = _hdr_check("C09", 1 | 2 | 4 | 8, ["C09"], 60, 400,
        "")
    return _finish_codes(chk,
        "headers produced by encode for every wire configuration x both checksum types, mutated by: each of the 640 single-bit "
        "flips, seeded byte replacements, seeded multi-byte edits (half re-sealed with either CRC), library-version gate "
        "{0, 1.1.9, 1.2.0, current, newer, 0xffffff} x {sealed standard, sealed historical, unsealed, garbage} x both byte orders, "
        "magic rewrites, metadata edits sealed with only one of the two CRCs; each judged by get_fragment_metadata, "
        "is_invalid_fragment_header, decode and reconstruct; TLC decides HeaderAccepted/HostOrder from the 80 bytes with bitwise "
        "CRCs; bytes compared before/after; non-trivial = mutated-header events", ["TLC", "ASan/UBSan"], exhaustive=False)


def c10():
    def extra(chk, thorough):
        cmds = ["crcalt %d 300 %d" % (2000 if thorough else 400, _seed_of(chk, 5))]
        # "fragment validation then rejects the fragment": a reported mismatch (flag set in the metadata the caller
        # hands to stripe verification) must make the stripe fail wherever that fragment sits in the list
        cfgs = wire_configs(thorough)
        for i, (be, k, m, hd) in enumerate(cfgs[:6 if not thorough else 12]):
            cmds.append("cross %d %d %d %d %d %d %d %d %d %d %d %d %d %d" % (
                be, k, m, hd, WORD[be], 2, be, k, m, hd, WORD[be], 2, 40 + i, _seed_of(chk, 60 + i)))
        return cmds
    chk, v, files, rule = _hdr_check("C10", 64 | 16 | 32, ["C10", "C11 opposite-endian payload mismatch", "C11 opposite-endian checksum type",
                                                            "C12 stripe metadata verification verdict"],
                                     40, 200, "", extra_cmds=extra, lens=[13, 60, 0, 100, 3])
    thorough = chk.tier == "thorough"
    # the historical CRC against its bitwise definition on the production configuration too (implementation-defined shifts)
    vg, fg = _run(chk, ["crcalt %d 300 %d" % (400, _seed_of(chk, 6))], "C10-gcc", ["C10", "fault"], variant="gcc")
    # writers: stored checksum = CRC of payload (standard / historical under the switch), every byte (shares C07's oracle)
    for li, leg in enumerate(LEGACY_VALUES):
        cmds = []
        for ci, (be, k, m, hd) in enumerate(wire_configs(thorough)):
            for L in ([0, 1, 17, 64, 131] if thorough else [0 if (ci + li) % 3 == 0 else 1 + ci, 40 + li]):
                # ... and every fragment rebuilt by reconstruct while the switch has the OTHER meaning (RecB events)
                other = "-" if leg not in (None, "", "0") else ("1" if (ci + li) % 2 else "yes")
                cmds.append(enc_cmd(be, k, m, hd, 2, L, _seed_of(chk, L + ci), 1) + " " + other)
        env = {} if leg is None else {"LIBERASURECODE_WRITE_LEGACY_CRC": leg}
        v2, f2 = _run(chk, cmds, "C10-leg%d" % li, ["C10", "C07 fragment bytes", "C07 header bytes", "fault"], env=env, max_lines=300)
        chk.parts["writer_events_legacy_%s" % ("unset" if leg is None else repr(leg))] = (v2.counts or [0] * 3)[1]
        # reconstruct under the same switch must store the same checksum as encode did (byte identity, C03's oracle)
        rc = [sweep_cmd(be, k, m, hd, 2, 50 + ci, _seed_of(chk, ci), 1, 1, 40, 8) for ci, (be, k, m, hd) in enumerate(wire_configs(False)) if be != BE_NULL]
        f3, e3, r3 = run_sweeps("asan", rc, "C10-rec%d" % li, env=env)
        v3 = validate("TraceCodes", f3)
        _collect(chk, v3, ["C03", "C02 reconstruct", "fault"])
    return _finish_codes(chk,
        "writers: encode and reconstruct under each value of the legacy-CRC switch %s with checksum type CRC32: stored payload "
        "checksum equals the bitwise standard / historical CRC-32 of the payload (every fragment byte compared; reconstructed "
        "fragments byte-identical to encoded ones); readers: every single-bit payload flip for payloads <= 32 bytes, seeded "
        "payload edits otherwise, edits of the stored checksum, stored checksum replaced by the historical CRC, mismatch flag and "
        "checksum-type edits: chksum_mismatch and is_invalid_fragment verdicts decided by TLC; liberasurecode_crc32_alt against "
        "its bitwise definition on seeded buffers of length 0..300; non-trivial = mutated-fragment events" % LEGACY_VALUES,
        ["TLC", "ASan/UBSan"], exhaustive=False)


def c11():
    chk, v, files, rule = _hdr_check("C11", 32 | 8, ["C11", "C09 metadata query", "C09 header predicate", "C09 validation modified"], 10, 40, "")
    return _finish_codes(chk,
        "for fragments of every wire configuration: the field-wise byte-swapped twin (as an opposite-endian writer stores it, "
        "re-sealed with the swapped metadata CRC, standard or historical) with and without payload damage, and the version-gate "
        "family in both byte orders: every field returned by get_fragment_metadata, the header verdict and the payload mismatch "
        "detection compared by TLC with Wire!MetadataView of the same bytes; non-trivial = events on opposite-endian headers",
        ["TLC", "ASan/UBSan"], exhaustive=False)


def c12():
    def extra(chk, thorough):
        cmds = []
        cfgs = wire_configs(thorough)
        i = 0
        for (beI, kI, mI, hdI) in cfgs[:6 if not thorough else 12]:
            for (beJ, kJ, mJ, hdJ) in cfgs[:6 if not thorough else 12]:
                i += 1
                # the validating instance's own checksum type varies too (the verdict depends on the fragment, not on it)
                cmds.append("cross %d %d %d %d %d %d %d %d %d %d %d %d %d %d" % (
                    beI, kI, mI, hdI, WORD[beI], 2 - (i // 2) % 2, beJ, kJ, mJ, hdJ, WORD[beJ], 1 + i % 2, 30 + i, _seed_of(chk, i)))
        for ci, (be, k, m, hd) in enumerate(cfgs):
            cmds.append(enc_cmd(be, k, m, hd, 1 + ci % 2, 20 + ci, _seed_of(chk, ci), 2))
        return cmds
    chk, v, files, rule = _hdr_check("C12", 16 | 2 | 64 | 32 | 8, ["C12"], 256, 256, "", extra_cmds=extra)
    return _finish_codes(chk,
        "instances I x fragments of instances J (same / different backend and shape; intact, payload damaged, mismatch flag set), "
        "single-field edits re-sealed with a correct metadata CRC (index in {2^32-1, 0, n-1, n, n+1, 2^31, 2^32-2, 33}; backend id "
        "0..255; backend and library version +-2; mismatch flag; checksum type), byte edits and payload damage: is_invalid_fragment "
        "and verify_stripe_metadata verdicts decided by TLC from the bytes (Wire!FragmentInvalid, Wire!StripeFails); fragments just "
        "encoded validate as good; non-trivial = mutated-header + foreign-fragment + stripe events",
        ["TLC", "ASan/UBSan"], exhaustive=False)


def c20():
    chk = Check("C20")
    thorough = chk.tier == "thorough"
    cmds = []
    i = 0
    small = [(BE_RS, 2, 2, 2), (BE_RS, 3, 2, 2), (BE_RS, 4, 2, 2), (BE_RS, 2, 4, 4), (BE_XOR, 3, 3, 3), (BE_RS, 1, 3, 3), (BE_RS, 5, 3, 3)]
    big = [(BE_XOR, 5, 5, 3), (BE_XOR, 6, 6, 4), (BE_RS, 10, 4, 4), (BE_XOR, 12, 6, 4), (BE_RS, 8, 8, 8), (BE_ISAL_VAND, 4, 2, 2),
           (BE_ISAL_CAUCHY, 5, 3, 3), (BE_RS, 20, 12, 12)]
    for (be, k, m, hd) in small:
        i += 1
        cmds.append("sweep_force %d %d %d %d %d 2 %d %d %d" % (be, k, m, hd, WORD[be], 30 + i, _seed_of(chk, i), 3 ** 8 + 1))
    for (be, k, m, hd) in big:
        i += 1
        cmds.append("sweep_force %d %d %d %d %d 2 %d %d %d" % (be, k, m, hd, WORD[be], 100 + i, _seed_of(chk, i), 6000 if thorough else 1200))
    # payloads above 1 MiB per fragment (a checksum computed piecewise must still cover every byte): damage lands anywhere
    cmds.append("sweep_force %d 2 2 2 %d 2 %d %d %d" % (BE_RS, WORD[BE_RS], 2 * ((1 << 20) + 4096) + 3, _seed_of(chk, 77), 24))
    cmds.append("sweep_force %d 3 3 3 %d 2 %d %d %d" % (BE_XOR, WORD[BE_XOR], 3 * ((1 << 20) + 8192), _seed_of(chk, 78), 16))
    # stripes written under one meaning of the legacy-CRC switch and read under the other (run below under both values)
    tcmds = ["sweep_force %d %d %d %d %d 2 %d %d %d toggle" % (be, k, m, hd, WORD[be], 50 + j, _seed_of(chk, 300 + j), 400)
             for j, (be, k, m, hd) in enumerate([(BE_RS, 4, 2, 2), (BE_XOR, 5, 5, 3), (BE_RS, 3, 3, 3), (BE_XOR, 6, 6, 4)])]
    files, events, restarts = run_sweeps("asan", cmds, "C20")
    v = validate("TraceCodes", files)
    _collect(chk, v, ["C20", "fault", "create failed", "encode failed"])
    for envv, nm in (({}, "a"), ({"LIBERASURECODE_WRITE_LEGACY_CRC": "1"}, "b")):
        ft, et, rt = run_sweeps("asan", tcmds, "C20-toggle" + nm, env=envv)
        vt = validate("TraceCodes", ft)
        _collect(chk, vt, ["C20", "fault", "create failed", "encode failed"])
    c = v.counts or [0] * 12
    chk.cov["distinct_nontrivial"] = c[1]
    chk.parts.update({"forced_decode_events": c[1], "refused": c[4]})
    for f in files[:2]:
        for line in open(f):
            ev = json.loads(line)
            if ev.get("e") == "Dec" and "dmg" in ev:
                chk.sample(ev, cap=3); break
    return _finish_codes(chk,
        "checksum type CRC32; every assignment absent/intact/damaged of the fragments of 7 small stripes (3^n, n <= 8; damage = "
        "payload bit flip or re-sealed backend-id edit) and seeded assignments for larger shapes incl. both ISA-L adapters (damage "
        "kinds: payload flip, backend id, backend version, out-of-range index, all re-sealed): decode with force_metadata_checks=1; "
        "TLC: rc = 0 => original bytes; valid fragments alone within tolerance => rc = 0 with the original bytes; "
        "non-trivial = forced-decode events with at least one damaged fragment", ["TLC", "ecdrive memcmp", "ASan/UBSan"], exhaustive=False)
