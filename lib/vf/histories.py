"""API histories for C13/C14/C16/C17: scripts from TLC-generated behaviours (edge cover of MC_Libec)
and from a seeded random generator covering the argument classes of DESIGN Appendix B."""
import json, random, re
from .shapes import *

INT_MAX = 2147483647


def _idx_list(k, m, missing):
    return [i for i in range(k + m) if i not in missing]


def path_to_script(path, tag=0):
    """One TLC history (list of call records) -> driver commands."""
    out = ["reset"]
    cfg = {}
    for stp in path:
        op = stp["op"]
        if op == "create":
            c = stp["cfg"]
            s = stp["s"]
            if stp.get("wrap"):
                out.append("setnext %d" % INT_MAX)
            elif stp.get("coll", 0):
                out.append("setnext_before %d" % stp["coll"])
            if c["null"]:
                out.append("create_null %d %d" % (s, c["be"]))
            else:
                out.append("create %d %d %d %d %d %d %d" % (s, c["be"], c["k"], c["m"], c["hd"], c["w"], c["ct"]))
            if stp.get("d", -1) > 0:
                cfg[s] = c
        elif op == "destroy":
            out.append("destroy s%d" % stp["s"])
        elif op == "destroy_raw":
            v = stp["v"]
            out.append("destroy d%d" % (INT_MAX if v > 1 else v))
        elif op == "encode":
            s = stp["s"]
            out.append("encode s%d %d %d %d 0 0" % (s, s, 40 + 3 * s + tag % 7, 100 + s))
        elif op == "enc_cleanup":
            out.append("enc_cleanup s%d %d 0" % (stp["s"], stp["s"]))
        elif op == "decode":
            s = stp["s"]
            c = cfg.get(s, {"k": 2, "m": 1})
            if stp["kind"] == "tol":
                idx = _idx_list(c["k"], c["m"], {0})
                out.append("decode s%d %d %d 0 -100 0 0 %d %s" % (s, s, s, len(idx), " ".join(map(str, idx))))
            else:
                out.append("decode s%d %d %d 0 -100 0 0 1 1" % (s, s, s))
        elif op == "dec_cleanup":
            out.append("dec_cleanup s%d %d 0" % (stp["s"], stp["s"]))
        elif op == "create_fail":
            # the backend's init operation fails (stub in the backend's operation table, fires at its first call)
            c = stp["cfg"]
            s = stp["s"]
            out.append("arm %d 0 1 0" % c["be"])
            out.append("create %d %d %d %d %d %d %d" % (s, c["be"], c["k"], c["m"], c["hd"], c["w"], c["ct"]))
            out.append("disarm")
        elif op in ("encode_fail", "decode_fail", "recon_fail"):
            s = stp["s"]
            c = cfg.get(s, {"k": 2, "m": 1})
            variant = (tag + len(out)) % 2          # fail before / after doing the work
            out.append("arm %d %d 1 %d" % (stp["be"], {"encode_fail": 1, "decode_fail": 2, "recon_fail": 3}[op], variant))
            if op == "encode_fail":
                out.append("encode s%d %d %d %d 0 0" % (s, s, 40 + 3 * s + tag % 7, 100 + s))
            else:
                idx = _idx_list(c["k"], c["m"], {0})
                if op == "decode_fail":
                    out.append("decode s%d %d %d 0 -100 0 0 %d %s" % (s, s, s, len(idx), " ".join(map(str, idx))))
                else:
                    out.append("recon s%d %d 0 0 -100 0 0 %d %s" % (s, s, len(idx), " ".join(map(str, idx))))
            out.append("disarm")
    out.append("probe")
    return out


def parse_edges(tlc_out):
    paths = []
    for m in re.finditer(r'<<"EDGE", "(.*)">>', tlc_out):
        try:
            paths.append(json.loads(m.group(1).encode().decode("unicode_escape")))
        except Exception:
            pass
    return paths


GOOD_CFGS = [(BE_RS, 2, 1, 1, 16), (BE_RS, 4, 2, 2, 16), (BE_XOR, 3, 3, 3, 32), (BE_XOR, 5, 5, 3, 32), (BE_ISAL_VAND, 4, 2, 2, 8),
             (BE_ISAL_CAUCHY, 3, 2, 2, 8), (BE_NULL, 4, 2, 2, 32), (BE_RS, 10, 4, 4, 16), (BE_XOR, 6, 6, 4, 32), (BE_RS, 1, 1, 1, 16)]
# random histories also create parity-less RS instances (accepted since m >= 0 is): they hold the GF tables too
RAND_CFGS = GOOD_CFGS + [(BE_RS, 3, 0, 0, 16), (BE_RS, 1, 0, 0, 16), (BE_RS, 20, 12, 12, 16)]
BAD_CFGS = [(BE_RS, 0, 2, 2, 16), (BE_RS, -1, 2, 2, 16), (BE_RS, 2, -1, 1, 16), (BE_RS, 30, 3, 3, 16), (BE_XOR, 4, 3, 3, 32),
            (BE_XOR, 3, 3, 4, 32), (1, 4, 2, 2, 16), (2, 4, 2, 2, 16), (5, 4, 2, 2, 16), (8, 4, 2, 2, 16), (9, 4, 2, 2, 16), (255, 4, 2, 2, 16),
            (-1, 4, 2, 2, 16), (BE_ISAL_VAND, 4, 2, 2, 4), (BE_ISAL_CAUCHY, 4, 2, 2, 1), (BE_ISAL_VAND, 33, 0, 0, 8), (BE_XOR, 0, 0, 0, 32)]


def random_history(seed, length=60, faults=False, nslots=5):
    """Seeded random API history over all argument classes.  Well-formed with respect to ownership
    (outputs are cleaned up before their instance is destroyed) so that the ledger rules apply."""
    r = random.Random(seed)
    out = ["reset"]
    slots = {}          # slot -> cfg tuple when live
    dead = set()
    stripes = {}        # T -> (slot, cfg)
    douts = {}          # U -> slot
    if r.random() < 0.5:
        out.append("setnext %d" % r.choice([INT_MAX - 1, INT_MAX, INT_MAX - 2, 5, 0]))

    def desc_token(live_only=False, no_live=False):
        choices = []
        if slots and not no_live:
            choices += ["s%d" % s for s in slots] * 4
        if not live_only:
            if dead:
                choices += ["s%d" % s for s in dead]
            choices += ["d0", "d-1", "d%d" % INT_MAX, "d12345"]
        return r.choice(choices) if choices else "d0"

    for step in range(length):
        p = r.random()
        free_slots = [s for s in range(1, nslots + 1) if s not in slots]
        if p < 0.16 and free_slots:
            s = r.choice(free_slots)
            if r.random() < 0.25:
                be, k, m, hd, w = r.choice(BAD_CFGS)
                if r.random() < 0.15:
                    out.append("create_null %d %d" % (s, BE_RS)); continue
                out.append("create %d %d %d %d %d %d %d" % (s, be, k, m, hd, w, r.choice([1, 2])))
                continue
            if r.random() < 0.3:
                q = r.random()
                # after the counter is moved, descriptors of destroyed instances may be reissued: forget the stale handles
                if q < 0.4:
                    out.append("setnext %d" % r.choice([INT_MAX, INT_MAX - 1])); dead.clear()
                elif slots:
                    out.append("setnext_before %d" % r.choice(list(slots))); dead.clear()
            be, k, m, hd, w = r.choice(RAND_CFGS)
            if faults and r.random() < 0.2:
                out.append("arm %d 0 1 0" % be)
                out.append("create %d %d %d %d %d %d %d" % (s, be, k, m, hd, w, r.choice([1, 2])))
                continue
            out.append("create %d %d %d %d %d %d %d" % (s, be, k, m, hd, w, r.choice([1, 2])))
            slots[s] = (be, k, m, hd, w); dead.discard(s)
        elif p < 0.26:
            # destroy a live slot that owes nothing, or a dead/raw descriptor
            cand = [s for s in slots if all(v[0] != s for v in stripes.values()) and all(v != s for v in douts.values())]
            if cand and r.random() < 0.7:
                s = r.choice(cand)
                out.append("destroy s%d" % s); del slots[s]; dead.add(s)
            else:
                t = desc_token()
                if t.startswith("s") and int(t[1:]) in slots:
                    continue
                out.append("destroy %s" % t)
        elif p < 0.42:
            freeT = [t for t in range(1, 9) if t not in stripes]
            if not freeT:
                continue
            T = r.choice(freeT)
            q = r.random()
            if q < 0.7 and slots:
                s = r.choice(list(slots))
                be, k, m, hd, w = slots[s]
                a = align(be, k)
                L = r.choice([0, 1, a - 1, a, a + 1, 3 * a + 7, 1000, 4096 + 3])
                if faults and r.random() < 0.3:
                    out.append("arm %d 1 1 %d" % (be, r.randrange(2)))
                    out.append("encode s%d %d %d %d 0 0" % (s, T, max(L, 0), r.randrange(1, 10**6)))
                    continue
                out.append("encode s%d %d %d %d 0 0" % (s, T, max(L, 0), r.randrange(1, 10**6)))
                stripes[T] = (s, slots[s])
            else:
                tok = desc_token()
                mask = r.choice([0, 1, 2, 4, 8, 3, 9, 15]) if (tok.startswith("s") and int(tok[1:]) in slots) else r.choice([0, 1, 8, 9])
                if mask == 0 and tok.startswith("s") and int(tok[1:]) in slots:
                    mask = 1
                out.append("encode %s %d %d %d %d %d" % (tok, T, r.choice([0, 10, 100]), 7, mask, r.choice([0, 1])))
        elif p < 0.50 and stripes:
            T = r.choice(list(stripes))
            s = stripes[T][0]
            out.append("enc_cleanup s%d %d 0" % (s, T)); del stripes[T]
        elif p < 0.70 and stripes:
            T = r.choice(list(stripes))
            s, (be, k, m, hd, w) = stripes[T]
            n = k + m
            tolmax = (hd - 1) if be == BE_XOR else m
            q = r.random()
            nmiss = r.randrange(0, tolmax + 1) if q < 0.6 else r.randrange(0, n + 1)
            missing = set(r.sample(range(n), nmiss))
            idx = _idx_list(k, m, missing)
            r.shuffle(idx)
            if r.random() < 0.3 and idx:
                idx.append(r.choice(idx))
            isdec = r.random() < 0.55
            # never through another live instance: feeding a stripe to a foreign configuration is misuse, not a listed property
            tok = "s%d" % s if r.random() < 0.8 else desc_token(no_live=True)
            nullmask, flc, nfrag = 0, 0, -100
            if r.random() < 0.2:
                c = r.randrange(3)
                if c == 0:
                    nullmask = r.choice([1, 2, 4, 3] if isdec else [1, 2, 3])
                elif c == 1:
                    flc = r.choice([1, 2])
                else:
                    nfrag = r.choice([-1, 0, min(max(k - 1, 0), len(idx)), len(idx)])     # never more than the list holds (caller UB)
            if be == BE_NULL and missing & set(range(k)):
                continue
            if isdec:
                freeU = [u for u in range(1, 9) if u not in douts]
                if not freeU:
                    continue
                U = r.choice(freeU)
                fired = False
                if faults and r.random() < 0.3 and tok == "s%d" % s and nullmask == 0 and flc == 0 and nfrag == -100:
                    out.append("arm %d 2 1 %d" % (be, r.randrange(2))); fired = True
                out.append("decode %s %d %d %d %d %d %d %d %s" % (tok, T, U, r.randrange(2), nfrag, flc, nullmask, len(idx), " ".join(map(str, idx))))
                if fired:
                    out.append("disarm")
                # the driver keeps the output only when rc == 0; cleanup is emitted right away to stay well-formed
                out.append("dec_cleanup %s %d 0" % (tok if tok.startswith("s") else "s%d" % s, U))
            else:
                dest = r.choice(sorted(missing)) if (missing and r.random() < 0.7) else r.choice([-1, 0, n - 1, n, n + 1, INT_MAX, -INT_MAX - 1, r.randrange(n)])
                fired = False
                if faults and r.random() < 0.3 and tok == "s%d" % s and nullmask == 0 and flc == 0 and nfrag == -100 and dest in missing:
                    out.append("arm %d 3 1 %d" % (be, r.randrange(2))); fired = True
                out.append("recon %s %d %d 0 %d %d %d %d %s" % (tok, T, dest, nfrag, flc, nullmask, len(idx), " ".join(map(str, idx))))
                if fired:
                    out.append("disarm")
        elif p < 0.78:
            tok = desc_token()
            k_, m_ = 4, 2
            if tok.startswith("s") and int(tok[1:]) in slots:
                be, k_, m_, hd, w = slots[int(tok[1:])]
            n = k_ + m_
            R = r.sample(range(n), r.randrange(1, min(3, n) + 1))
            X = [x for x in r.sample(range(n), r.randrange(0, min(2, n) + 1)) if x not in R]
            mask = r.choice([0, 0, 0, 1, 2, 4, 7])
            if faults and r.random() < 0.3 and mask == 0 and tok.startswith("s") and int(tok[1:]) in slots:
                out.append("arm %d 4 1 0" % slots[int(tok[1:])][0])
                out.append("needed %s %d %d %s %d %s" % (tok, mask, len(R), " ".join(map(str, R)), len(X), " ".join(map(str, X))))
                out.append("disarm")
            else:
                out.append("needed %s %d %d %s %d %s" % (tok, mask, len(R), " ".join(map(str, R)), len(X), " ".join(map(str, X))))
        elif p < 0.86 and stripes:
            T = r.choice(list(stripes))
            q = r.randrange(3)
            if q == 0:
                out.append("meta %d %d %d" % (T, r.randrange(40), r.choice([0, 0, 1, 2, 3])))
            elif q == 1:
                out.append("finv %s %d %d %d" % (desc_token(), T, r.randrange(40), r.choice([0, 0, 1])))
            else:
                k, m = stripes[T][1][1], stripes[T][1][2]
                out.append("vstripe %s %d %d %d" % (desc_token(), T, r.choice([-1, 0, 1, k + m]), r.choice([0, 0, 1])))
        elif p < 0.93:
            out.append("size %s %d" % (desc_token(), r.choice([0, 1, 1000, 1 << 20])))
        elif p < 0.96:
            out.append("avail %d" % r.choice([0, 1, 3, 6, 7, 8, 9, 100, -1]))
        else:
            out.append("probe")
    # wind down: no injected failure may stay armed, hand everything back, destroy in random order
    if faults:
        out.append("disarm")
    for T, (s, c) in list(stripes.items()):
        out.append("enc_cleanup s%d %d 0" % (s, T))
    order = list(slots)
    r.shuffle(order)
    for s in order:
        out.append("destroy s%d" % s)
        out.append("probe")
    return out
