"""Group A: code algebra -- C01, C02, C03, C05, C06 (and the ISA-L twin C19)."""
import json, os, re, threading, time
from . import core
from .core import Check, tlc, run_sweeps, validate, log
from .shapes import *


def _seed_of(chk, i=0):
    return (chk.seed * 7919 + i * 104729) % 2000000000 + 1


def _collect(chk, verdict, own_prefixes, note_other=True):
    """Turn validator verdicts into violations of this property."""
    other = {}
    for (f, ln, reasons, ev) in verdict.viols:
        mine = [r for r in reasons if any(r.startswith(p) for p in own_prefixes)]
        inner = ev.get("in", ev) if ev.get("e") == "Fault" else ev
        case = {"event": inner.get("e"), "be": inner.get("be"), "k": inner.get("k"), "m": inner.get("m"),
                "hd": inner.get("hd"), "reasons": mine or reasons, "ev": ev}
        if mine:
            chk.violation(case, "%s at %s:%d  %s" % ("; ".join(mine), os.path.basename(f), ln, json.dumps(ev)[:700]))
        else:
            for r in reasons:
                other[r] = other.get(r, 0) + 1
    if verdict.rejected:
        for (f, tail) in verdict.rejected:
            chk.violation({"event": "trace-rejected", "file": f}, "trace not consumed by the specification: %s\n%s" % (f, tail))
    if other and note_other:
        chk.parts.setdefault("reasons_of_other_properties", {}).update(other)
    chk.cov["traces_validated_against_impl"] += verdict.files
    chk.cov["evaluations"] += verdict.events
    chk.parts["trace_events"] = chk.parts.get("trace_events", 0) + verdict.events
    chk.parts["trace_states"] = chk.parts.get("trace_states", 0) + verdict.states
    chk.parts["model_drift_events"] = chk.parts.get("model_drift_events", 0) + verdict.drift
    chk.cov["states"] += verdict.states
    chk.cov["transitions"] += verdict.states
    return verdict


def _bg(fn, *a, **kw):
    box = {}

    def run():
        try:
            box["r"] = fn(*a, **kw)
        except Exception as e:  # noqa
            box["e"] = e
    t = threading.Thread(target=run)
    t.start()
    return t, box


def _join(tb):
    t, box = tb
    t.join()
    if "e" in box:
        raise box["e"]
    return box["r"]


def rs_hd(m, i):
    """The hd argument of a Reed-Solomon instance is documented as '= m' and the repository's tests pass m + 1; the
    backends ignore it, so every value must behave the same: the sweeps rotate over m, m + 1, 0 and 1."""
    return [m, m + 1, 0, m, 1][i % 5]


def sweep_cmd(be, k, m, hd, ct, length, seed, emin, emax, cap, mode):
    return "sweep_dec %d %d %d %d %d %d %d %d %d %d %d %d" % (be, k, m, hd, WORD[be], ct, length, seed, emin, emax, cap, mode)


def tolerance(be, m, hd):
    return hd - 1 if be == BE_XOR else m


def roundtrip_cmds(chk, backends, thorough, mode, emax_fn=None, xor_tables=None):
    """Bounded-exhaustive scenario set shared by C01/C03/C19: every tolerated erasure set."""
    cmds = []
    i = 0
    nmax = 12 if thorough else 8
    for be in backends:
        if be == BE_XOR:
            for ti, (k, m, hd) in enumerate(xor_tables or XOR_TABLES):
                lcs = len_classes(be, k)
                # + a length whose per-fragment payload runs through the word loops with a tail (12..40 bytes, all residues mod 16)
                mid = k * 4 * [3, 5, 6, 7, 9, 10][ti % 6] - 1
                picks = (lcs + [mid]) if (thorough or ti < 2) else [lcs[ti % 6], lcs[(ti + 3) % 6], mid]
                for li, L in enumerate(picks):
                    for ct in ([1, 2] if (thorough and ti % 4 == 0) else [1 + (ti + li) % 2]):
                        i += 1
                        cmds.append(sweep_cmd(be, k, m, hd, ct, L, _seed_of(chk, i), 0, hd - 1, 10**9, mode))
        else:
            for (k, m) in rs_shapes(nmax):
                lcs = len_classes(be, k)
                mid = k * 2 * [9, 12, 17, 19, 22, 33][(k + 2 * m) % 6] + 1      # payloads of 20..68 bytes, every residue mod 8
                picks = (lcs + [mid]) if (thorough and k + m <= 8) else [lcs[(k + m) % 6], lcs[(k * 3 + m) % 6], mid]
                for li, L in enumerate(picks):
                    i += 1
                    cmds.append(sweep_cmd(be, k, m, rs_hd(m, i), 1 + (k + m + li) % 2, L, _seed_of(chk, i), 0, m, 10**9, mode))
            for (k, m) in boundary_rs() + ([(k, 32 - k) for k in range(3, 30, 4)] if thorough else []):
                i += 1
                L = len_classes(be, k)[(k + m + i) % 6]
                cmds.append(sweep_cmd(be, k, m, rs_hd(m, i), 1 + i % 2, L, _seed_of(chk, i), 0, m, 60 if not thorough else 300, mode))
            if not thorough:
                # a few large inputs in the quick tier too (chunked copies, 32-bit sizes): 4 KiB + 1, 64 KiB + 1, 1 MiB - 3
                for j, ((k, m), L) in enumerate([((4, 2), 4097), ((10, 4), 65537), ((3, 2), (1 << 20) - 3)]):
                    i += 1
                    cmds.append(sweep_cmd(be, k, m, m, 1 + j % 2, L, _seed_of(chk, i), 1, m, 3, mode))
            if thorough:
                # seeded large inputs
                for j, (k, m) in enumerate([(4, 2), (10, 4), (15, 6), (8, 8)]):
                    i += 1
                    cmds.append(sweep_cmd(be, k, m, m, 2, (1 << 20) - 3 + j * 5, _seed_of(chk, i), 0, m, 4, mode))
    # an instance accepted with another word size than the backend's own behaves the same (or is refused): C01/C03 are
    # stated for every configuration the library accepts
    OTHER_W = {BE_RS: [8, 32, 64, 4], BE_XOR: [8, 16, 64, 4]}
    for be in backends:
        shp = (5, 5, 3) if be == BE_XOR else (4, 2, 2)
        for wi, w_ in enumerate(OTHER_W.get(be, [])):
            for L in (1, 37, 1000 + wi):
                i += 1
                cmds.append("sweep_dec %d %d %d %d %d %d %d %d %d %d %d %d" % (be, shp[0], shp[1], shp[2], w_, 1 + wi % 2, L, _seed_of(chk, i), 0,
                                                                               tolerance(be, shp[1], shp[2]), 12, mode))
    if BE_XOR in backends and not thorough:
        for j, ((k, m, hd), L) in enumerate([((5, 5, 3), 4099), ((10, 6, 4), 65541), ((6, 6, 4), (1 << 20) - 1)]):
            i += 1
            cmds.append(sweep_cmd(BE_XOR, k, m, hd, 1 + j % 2, L, _seed_of(chk, i), 1, hd - 1, 3, mode))
    if BE_XOR in backends and thorough:
        for j, (k, m, hd) in enumerate([(5, 5, 3), (10, 6, 4), (20, 6, 4)]):
            i += 1
            cmds.append(sweep_cmd(BE_XOR, k, m, hd, 2, (1 << 20) + 1 + j, _seed_of(chk, i), 0, hd - 1, 6, mode))
    return cmds


BUILTIN = [BE_XOR, BE_RS]


def _gcc_boundary(chk, prop, cmds, prefixes, maxcmds=40):
    """Re-run the commands on the boundary shapes (k+m = 32, index 31: `1 << 31`, sign extension) and a sample of the
    others on the production configuration (gcc -O2, hooks off): what undefined behaviour does is the compiler's choice
    (D13), so "no observable effect" is established on the compiler the repository is built with as well."""
    def shape(c):
        t = c.split()
        try:
            return int(t[2]) + int(t[3])
        except Exception:
            return 0
    big = [c for c in cmds if shape(c) == 32]
    rest = [c for c in cmds if shape(c) != 32]
    pick = big[:maxcmds] + rest[:: max(1, len(rest) // max(1, (maxcmds - len(big[:maxcmds]))))][: max(0, maxcmds - len(big[:maxcmds]))]
    if not pick:
        return
    files, events, restarts = run_sweeps("gcc", pick, prop + "-gcc")
    v = validate("TraceCodes", files)
    _collect(chk, v, prefixes)
    chk.parts["gcc_O2_commands"] = len(pick)


def _finish_codes(chk, rule, trusted, exhaustive=True):
    chk.cov["rule"] = rule
    chk.cov["trusted_base"] = trusted
    chk.cov["exhaustive"] = exhaustive
    return chk.finish()


def _suite(chk, prefixes):
    """The repository's own test programs, recorded through harness/suiteshim.c, validated by TraceLibec."""
    from . import suite
    try:
        v = suite.validate_into(chk, prefixes)
    except Exception as e:  # the suite is an additional source of histories: its absence is recorded, not fatal
        chk.parts["suite_histories"] = {"unavailable": str(e)[:400]}
        return
    if v is not None:
        chk.parts["suite_events_validated"] = v.events


def _samples(chk, files, kinds=("Dec", "Rec", "Need"), n=4):
    got = 0
    for f in files:
        with open(f) as fh:
            for line in fh:
                try:
                    ev = json.loads(line)
                except Exception:
                    continue
                if ev.get("e") in kinds and (ev.get("idx") is None or len(ev.get("idx")) < ev["k"] + ev["m"]):
                    chk.sample(ev)
                    got += 1
                    break
        if got >= n:
            break


def c01(backends=None, prop="C01"):
    chk = Check(prop)
    thorough = chk.tier == "thorough"
    backends = backends or BUILTIN
    # model: within tolerance the decoder is exact for every table (and distance >= hd)
    m1 = _bg(tlc, "MC_XorDecoder", "MC_XorDecoder_tol", workers=6, timeout=900, tag=prop) if BE_XOR in backends else None
    cmds = roundtrip_cmds(chk, backends, thorough, mode=7)
    files, events, restarts = run_sweeps("asan", cmds, prop + "-asan")
    v = validate("TraceCodes", files)
    _collect(chk, v, [prop[:3], "C01", "fault", "create failed", "encode failed", "C02"] if prop == "C01" else
             ["C01", "C02", "C03", "C19", "fault", "create failed", "encode failed"])
    if m1:
        r = _join(m1)
        chk.add_tlc(r, "MC_XorDecoder_tol")
        if not r.ok:
            chk.violation({"event": "model", "cfg": "MC_XorDecoder_tol", "violated": r.violated},
                          "model invariant violated: %s\n%s" % (r.violated, r.out[-1500:]))
    c = v.counts or [0] * 12
    chk.cov["distinct_nontrivial"] = c[2]
    chk.parts["decode_events"] = c[1]
    chk.parts["driver_commands"] = len(cmds)
    _samples(chk, files)
    if prop == "C01":
        # written under one meaning of the legacy-CRC switch, read under the other (both directions), CRC32, with and
        # without forced checks: readers accept both flavours whatever the switch says
        tg = []
        for j, (be, k, m, hd) in enumerate([(BE_RS, 4, 2, 2), (BE_XOR, 5, 5, 3), (BE_RS, 10, 4, 4), (BE_XOR, 10, 6, 4)]):
            if be in backends:
                tg.append(sweep_cmd(be, k, m, hd, 2, 100 + 37 * j, _seed_of(chk, 4000 + j), 0, tolerance(be, m, hd), 40, 1 | 2 | 4 | 64))
        for envv, nm in (({}, "a"), ({"LIBERASURECODE_WRITE_LEGACY_CRC": "1"}, "b")):
            ft, et, rt = run_sweeps("asan", tg, prop + "-toggle" + nm, env=envv)
            vt = validate("TraceCodes", ft)
            _collect(chk, vt, ["C01", "C02", "fault", "create failed", "encode failed"])
        _suite(chk, ["C13/C01", "C02 success", "fault"])
        _gcc_boundary(chk, prop, cmds, ["C01", "C02", "fault", "create failed", "encode failed"])
    return _finish_codes(chk,
        "every tolerated erasure set (all |E|<hd of all 38 XOR tables; all |E|<=m of every RS shape with k+m<=%d; "
        "sampled sets on boundary/large shapes) x 3 fragment arrangements (in order; shuffled with duplicates and "
        "unaligned offsets; reversed with forced checks) x rotating length class {0,1,a-1,a,a+1,3a+7} and checksum type; "
        "non-trivial = decode events with at least one missing fragment" % (12 if thorough else 8),
        ["TLC", "ecdrive memcmp against its own original data", "ASan/UBSan", "allocation ledger"])


def c02():
    chk = Check("C02")
    thorough = chk.tier == "thorough"
    # model: transcribed XOR decoder never succeeds with wrong bytes / never hits UB, for every set the front end lets through
    mcfg = "MC_XorDecoder_m" if thorough else "MC_XorDecoder_hd"
    m1 = _bg(tlc, "MC_XorDecoder", mcfg, workers=8, timeout=5000 if thorough else 1500, tag="C02", heap="12g")
    cmds = []
    i = 0
    for ti, (k, m, hd) in enumerate(XOR_TABLES):
        i += 1
        L = len_classes(BE_XOR, k)[3 + ti % 3]
        n = k + m
        # every set up to hd (quick) / up to m (thorough): decode in order + reconstruct every missing index
        top = m if thorough else hd
        cmds.append(sweep_cmd(BE_XOR, k, m, hd, 1 + ti % 2, L, _seed_of(chk, i), 0, top, 10**9, 1 | 8))
        # too few / far beyond tolerance, sampled, shuffled with duplicates
        cmds.append(sweep_cmd(BE_XOR, k, m, hd, 1 + ti % 2, L, _seed_of(chk, i), top + 1, n, 12 if not thorough else 60, 2 | 32))
    for (k, m) in rs_shapes(10 if thorough else 8):
        i += 1
        L = len_classes(BE_RS, k)[3 + (k + m) % 3]
        cmds.append(sweep_cmd(BE_RS, k, m, m, 1 + (k + m) % 2, L, _seed_of(chk, i), 0, k + m, 10**9, 1 | 2 | 8))
    for (k, m) in boundary_rs():
        i += 1
        cmds.append(sweep_cmd(BE_RS, k, m, m, 2, len_classes(BE_RS, k)[4], _seed_of(chk, i), 0, k + m, 20, 1 | 2 | 8))
    files, events, restarts = run_sweeps("asan", cmds, "C02-asan")
    v = validate("TraceCodes", files)
    _collect(chk, v, ["C02", "fault", "create failed", "encode failed"])
    r = _join(m1)
    chk.add_tlc(r, mcfg)
    cases = []
    for m in re.finditer(r'<<"CASE", "(.*)">>', r.out):
        cases.append(json.loads(m.group(1).encode().decode("unicode_escape")))
    chk.parts["model_silent_corruption_cases"] = len(cases)
    # every violating model state is a case record; group by table so the report stays readable
    seen = set()
    for cs in cases:
        key = (cs["k"], cs["m"], cs["hd"], cs["kind"])
        if key in seen:
            continue
        seen.add(key)
        chk.violation({"event": "model", "be": 3, "k": cs["k"], "m": cs["m"], "hd": cs["hd"], "kind": cs["kind"],
                       "reasons": ["C02 model: success with wrong bytes or undefined behaviour"], "case": cs},
                      "XorDecoder model (transcription of the current code): %s with missing=%s dest=%s succeeds with wrong "
                      "bytes or runs into undefined behaviour (%d such model states in total)" %
                      (cs["kind"], cs["miss"], cs["dest"], len(cases)))
    if not r.ok and not cases:
        chk.violation({"event": "model", "cfg": mcfg}, "model check failed: %s" % r.out[-1500:])
    c = v.counts or [0] * 12
    chk.cov["distinct_nontrivial"] = c[3] + c[6]
    chk.parts["decode_events"] = c[1]; chk.parts["decode_beyond_tolerance"] = c[3]; chk.parts["decode_refused"] = c[4]
    chk.parts["reconstruct_events"] = c[5]; chk.parts["faults"] = c[9]
    _samples(chk, files)
    _suite(chk, ["C02", "fault"])
    return _finish_codes(chk,
        "every sub-set of every stripe up to |E|<=%s for all 38 XOR tables (decode + reconstruct of each missing index), "
        "sampled larger sets up to all fragments missing, every sub-set of every RS stripe with k+m<=%d, in crash-isolated "
        "children under ASan; model: all erasure sets of size <= %s of all tables in the transcribed decoder; "
        "non-trivial = decode events beyond tolerance + reconstruct events" %
        ("m" if thorough else "hd", 10 if thorough else 8, "m" if thorough else "hd+1"),
        ["TLC", "ecdrive memcmp", "ASan/UBSan"])


def c03(backends=None, prop="C03"):
    chk = Check(prop)
    thorough = chk.tier == "thorough"
    backends = backends or BUILTIN
    m1 = _bg(tlc, "MC_XorDecoder", "MC_XorDecoder_tol", workers=6, timeout=900, tag=prop) if BE_XOR in backends else None
    cmds = roundtrip_cmds(chk, backends, thorough, mode=8 | 16 | 32)
    # out-of-range destinations
    i = 0
    for be in backends:
        shapes_ = [(3, 3, 3), (10, 6, 4)] if be == BE_XOR else [(4, 2, 2), (1, 1, 1), (10, 4, 4)]
        for (k, m, hd) in shapes_:
            for ct in (1, 2):
                i += 1
                cmds.append("oob_dest %d %d %d %d %d %d %d %d" % (be, k, m, hd, WORD[be], ct, len_classes(be, k)[5], _seed_of(chk, 900 + i)))
    files, events, restarts = run_sweeps("asan", cmds, prop + "-asan")
    v = validate("TraceCodes", files)
    _collect(chk, v, ["C03", "C02 reconstruct", "C02 wrote", "fault", "create failed", "encode failed"] +
             (["C19"] if prop == "C19" else []))
    if m1:
        r = _join(m1)
        chk.add_tlc(r, "MC_XorDecoder_tol")
        if not r.ok:
            chk.violation({"event": "model", "cfg": "MC_XorDecoder_tol"}, "model invariant violated: %s" % r.out[-1500:])
    c = v.counts or [0] * 12
    chk.cov["distinct_nontrivial"] = c[5]
    chk.parts["reconstruct_events"] = c[5]; chk.parts["reconstruct_refused"] = c[6]
    _samples(chk, files, kinds=("Rec",))
    if prop == "C03":
        # fragments rebuilt, and supplied destinations handed back, after the legacy-CRC switch changed inside the process
        # (every byte against the serializer / the supplied fragment: TraceWire RecB events)
        from .checks_wire import enc_cmd, wire_configs
        rb = []
        for ci, (be, k, m, hd) in enumerate(wire_configs(False)):
            if be in backends or (BE_RS in backends and be == BE_RS):
                for L in (1, 40 + ci):
                    rb.append(enc_cmd(be, k, m, hd, 1 + ci % 2, L, _seed_of(chk, 6000 + ci + L), 1) + (" 1" if ci % 2 else " yes"))
        for envv, nm in (({}, "a"), ({"LIBERASURECODE_WRITE_LEGACY_CRC": "1"}, "b")):
            rbc = rb if nm == "a" else [c_.rsplit(" ", 1)[0] + " -" for c_ in rb]
            fr, er, rr = run_sweeps("asan", rbc, prop + "-recb" + nm, env=envv)
            vr = validate("TraceWire", fr, max_lines=400)
            _collect(chk, vr, ["C03", "C10 reconstructed fragment", "fault"])
        _suite(chk, ["C13/C03", "C02 reconstruct", "fault"])
        _gcc_boundary(chk, prop, cmds, ["C03", "C02 reconstruct", "C02 wrote", "fault", "create failed", "encode failed"])
    return _finish_codes(chk,
        "same scenario space as C01 x every missing destination (byte comparison of header, both CRCs and payload with the "
        "fragment encode produced), destinations among the supplied fragments, shuffled/unaligned lists, and destinations "
        "-1, n, n+1, INT_MAX, INT_MIN; non-trivial = reconstruct events",
        ["TLC", "ecdrive memcmp", "ASan/UBSan"])


def need_cmd(be, k, m, hd, maxl, cap, seed):
    return "sweep_need %d %d %d %d %d %d %d %d" % (be, k, m, hd, WORD[be], maxl, cap, seed)


def c06(backends=None, prop="C06"):
    chk = Check(prop)
    thorough = chk.tier == "thorough"
    backends = backends or BUILTIN
    mcfg = "MC_XorPlanner_hd" if thorough else "MC_XorPlanner_tol"
    m1 = _bg(tlc, "MC_XorPlanner", mcfg, workers=8, timeout=5000 if thorough else 1500, tag=prop, heap="16g") if BE_XOR in backends else None
    cmds = []
    i = 0
    for be in backends:
        if be == BE_XOR:
            for (k, m, hd) in XOR_TABLES:
                i += 1
                # all ordered (R, X) within tolerance; |R|+|X| = hd sampled (quick) / all (thorough)
                cmds.append(need_cmd(be, k, m, hd, hd - 1, 10**9, _seed_of(chk, i)))
                cmds.append("sweep_need_len %d %d %d %d %d %d %d %d" % (be, k, m, hd, WORD[be], hd, 10**9 if thorough else 400, _seed_of(chk, i)))
                cmds.append("sweep_need_len %d %d %d %d %d %d %d %d" % (be, k, m, hd, WORD[be], hd + 1, 100, _seed_of(chk, i)))
        else:
            for (k, m) in rs_shapes(12 if thorough else 8):
                i += 1
                cmds.append(need_cmd(be, k, m, rs_hd(m, i), min(m, 4), 4000 if thorough else 1500, _seed_of(chk, i)))
                cmds.append("sweep_need_len %d %d %d %d %d %d %d %d" % (be, k, m, m, WORD[be], min(m + 1, 6), 40, _seed_of(chk, i)))
            for (k, m) in boundary_rs():
                i += 1
                cmds.append(need_cmd(be, k, m, rs_hd(m, i), min(m, 5), 600, _seed_of(chk, i)))
    files, events, restarts = run_sweeps("asan", cmds, prop + "-asan")
    v = validate("TraceCodes", files)
    _collect(chk, v, ["C06", "fault", "create failed"])
    if m1:
        r = _join(m1)
        chk.add_tlc(r, mcfg)
        cases = [json.loads(m.group(1).encode().decode("unicode_escape")) for m in re.finditer(r'<<"CASE", "(.*)">>', r.out)]
        chk.parts["model_bad_answers"] = len(cases)
        seen = set()
        for cs in cases:
            key = (cs["k"], cs["m"], cs["hd"])
            if key in seen:
                continue
            seen.add(key)
            chk.violation({"event": "model", "be": 3, "k": cs["k"], "m": cs["m"], "hd": cs["hd"],
                           "reasons": ["C06 model: planner answer not usable"], "case": cs},
                          "XorDecoder!Plan (transcription of the current planner): R=%s X=%s -> rc=%s N=%s ub=%s is not a usable "
                          "answer (%d such model states in total)" % (cs["R"], cs["X"], cs["rc"], cs["N"], cs["ub"], len(cases)))
        if not r.ok and not cases:
            chk.violation({"event": "model", "cfg": mcfg}, "model check failed: %s" % r.out[-1500:])
    c = v.counts or [0] * 12
    chk.cov["distinct_nontrivial"] = c[7]
    chk.parts["needed_events"] = c[7]; chk.parts["needed_refused"] = c[8]
    _samples(chk, files, kinds=("Need",))
    if prop == "C06":
        _suite(chk, ["C06", "fault"])
        _gcc_boundary(chk, prop, cmds, ["C06", "fault", "create failed"])
    return _finish_codes(chk,
        "every ordered pair (R, X) of distinct-index lists with |R|+|X| < hd for all 38 XOR tables through the public API "
        "(356256 cases), |R|+|X| = hd and hd+1 %s; RS shapes k+m<=%d with |R|+|X| <= min(m,4) (all or seeded sample) and beyond; "
        "TLC evaluates NeededOK (distinct, in range, disjoint from R and X, GF(2)-span sufficiency / exactly k for RS) per event; "
        "model: the transcribed planner over the same space; non-trivial = fragments_needed events" %
        ("exhaustive" if thorough else "sampled", 12 if thorough else 8),
        ["TLC", "ASan/UBSan"])


def c05():
    chk = Check("C05")
    thorough = chk.tier == "thorough"
    m1 = _bg(tlc, "MC_XorDecoder", "MC_XorDecoder_tol", workers=6, timeout=900, tag="C05")
    # (a) equations through the public API + exported tables; (c) the create box
    cmds_a = ["xor_eq %d %d %d %d" % (k, m, hd, _seed_of(chk, i)) for i, (k, m, hd) in enumerate(XOR_TABLES)]
    for k0 in range(0, 34, 3):
        cmds_a.append("create_box 3 %d %d 0 8 0 7 32 1" % (k0, min(k0 + 2, 33)))
    # (b) exhaustive decode + reconstruct of every |E| < hd, payload sizes that are / are not multiples of 16
    # per-fragment payload sizes (always a multiple of 4 for this backend): every residue modulo 16, blocks shorter than
    # 16, and larger ones
    pays = [4, 8, 12, 16, 20, 24, 32, 36, 40, 48, 100, 104, 4096, 4100]
    NP = len(pays)
    cmds_b = []
    for ti, (k, m, hd) in enumerate(XOR_TABLES):
        picks = pays if thorough else [pays[ti % NP], pays[(ti * 5 + 3) % NP], pays[(ti * 3 + 7) % NP]]
        for pi, p in enumerate(picks):
            cmds_b.append(sweep_cmd(BE_XOR, k, m, hd, 1 + (ti + pi) % 2, k * p, _seed_of(chk, ti * 7 + pi), 0, hd - 1, 10**9, 1 | 2 | 8))
    f1, e1, r1 = run_sweeps("asan", cmds_a + cmds_b, "C05-asan")
    # portable (non-SSE2) build flavour
    cmds_n = []
    for ti, (k, m, hd) in enumerate(XOR_TABLES):
        picks = pays if thorough else [pays[(ti + 1) % NP], pays[(ti * 5 + 9) % NP]]
        for pi, p in enumerate(picks):
            cmds_n.append(sweep_cmd(BE_XOR, k, m, hd, 1, k * p, _seed_of(chk, 500 + ti * 7 + pi), 0, hd - 1, 10**9, 1 | 8))
    # every supported shape works whatever word size the caller passes (accepted -> exact; or refused)
    for ti, (k, m, hd) in enumerate(XOR_TABLES):
        w_ = [4, 8, 16, 64, 1, 7][ti % 6]
        c_ = "sweep_dec %d %d %d %d %d %d %d %d %d %d %d %d" % (BE_XOR, k, m, hd, w_, 1 + ti % 2, k * pays[ti % NP] + 1, _seed_of(chk, 950 + ti), 0, hd - 1, 25, 1 | 8)
        cmds_b.append(c_)
        if ti % 3 == 0:
            cmds_n.append(c_)
    # payloads of 64 KiB and more per fragment, both flavours (sampled erasure sets)
    for j, (k, m, hd) in enumerate([(5, 5, 3), (10, 6, 4), (6, 6, 4), (12, 6, 3)] if thorough else [(5, 5, 3), (10, 6, 4)]):
        big = sweep_cmd(BE_XOR, k, m, hd, 1 + j % 2, k * (65536 + 4 * (j + 1)), _seed_of(chk, 900 + j), 1, hd - 1, 6, 1 | 8)
        cmds_b.append(big); cmds_n.append(big)
        # ... and blocks that are exact multiples of 64 KiB (strip-wise loops)
        ex = sweep_cmd(BE_XOR, k, m, hd, 1 + j % 2, k * 65536 * (1 + j % 2), _seed_of(chk, 920 + j), 1, hd - 1, 4, 1 | 8)
        cmds_b.append(ex)
        if j == 0:
            cmds_n.append(ex)
    f2, e2, r2 = run_sweeps("nosse", cmds_n, "C05-nosse")
    v = validate("TraceCodes", f1 + f2)
    _collect(chk, v, ["C05", "C01", "C02", "C03", "fault", "create failed", "encode failed"])
    r = _join(m1)
    chk.add_tlc(r, "MC_XorDecoder_tol")
    if not r.ok:
        chk.violation({"event": "model", "cfg": "MC_XorDecoder_tol", "violated": r.violated},
                      "model invariant violated (distance / decoder / reconstruct within tolerance): %s\n%s" % (r.violated, r.out[-1500:]))
    c = v.counts or [0] * 12
    chk.cov["distinct_nontrivial"] = c[2] + c[5]
    chk.parts.update({"decode_events": c[1], "reconstruct_events": c[5], "equation_extractions": c[10], "create_box_shapes": c[11],
                      "events_sse2_build": e1, "events_portable_build": e2})
    if c[10] != len(XOR_TABLES):
        chk.violation({"event": "coverage"}, "equations were extracted for %d of %d tables" % (c[10], len(XOR_TABLES)))
    _samples(chk, f1, kinds=("XorEq", "Dec", "Rec"))
    return _finish_codes(chk,
        "TLC: GF(2) rank of every < hd erasure set of all 38 golden tables (distance >= hd), transcribed decoder and "
        "reconstruct exact on all of them; implementation: equations extracted through encode of unit data and the instance's "
        "two tables compared with the golden copy, every |E|<hd decoded (in order and shuffled/unaligned) and every missing "
        "index reconstructed, payload sizes {4,8,12,16,20,24,32,36,40,48,100,104,4096,4100} (%s) and >= 64 KiB (sampled), SSE2 and portable builds, create box k 0..33 x m 0..8 x hd 0..7; "
        "non-trivial = decode events with a missing fragment + reconstruct events" % ("all" if thorough else "three (SSE2) + two (portable) per table, rotating"),
        ["TLC", "ecdrive memcmp", "ASan/UBSan"])


def c04():
    chk = Check("C04")
    thorough = chk.tier == "thorough"
    mcfg = "MC_RSVand_thorough" if thorough else "MC_RSVand_quick"
    m1 = _bg(tlc, "MC_RSVand", mcfg, workers=8, timeout=6000 if thorough else 3000, tag="C04")
    stride = 1 if thorough else 4
    cmds = []
    # matrix / basis commands are split by k so that the work spreads over processes
    cmds.append("matrix 32 %d" % stride)
    cmds.append("rs_basis 32 %d %d" % (stride if thorough else 6, _seed_of(chk, 1)))
    # the same basis encodes on instances created with another word size than 16 (the property fixes 16-bit words for
    # every configuration; a refused configuration is fine) and on the production configuration
    for w_ in (8, 32, 4, 64):
        cmds.append("rs_basis 12 %d %d %d" % (3 if not thorough else 1, _seed_of(chk, 2), w_))
    files, events, restarts = run_sweeps("asan", cmds, "C04-asan", merge=False)
    fg, eg, rg = run_sweeps("gcc", ["rs_basis 32 %d %d" % (9 if not thorough else 2, _seed_of(chk, 3))], "C04-gcc", merge=False)
    files = files + fg
    v = validate("TraceRS", files, max_lines=400)
    _collect(chk, v, ["C04", "fault", "create failed", "encode failed"])
    r = _join(m1)
    chk.add_tlc(r, mcfg)
    if not r.ok:
        chk.violation({"event": "model", "cfg": mcfg, "violated": r.violated},
                      "model invariant violated: %s\n%s" % (r.violated, r.out[-1500:]))
    c = v.counts or [0] * 6
    chk.cov["distinct_nontrivial"] = c[1] + c[2]
    chk.parts.update({"matrix_events": c[1], "basis_encode_events": c[2], "linearity_events": c[3]})
    for f in files:
        for line in open(f):
            ev = json.loads(line)
            if ev.get("e") == "Basis":
                chk.sample(ev, cap=2); break
    return _finish_codes(chk,
        "TLC: transcription of make_systematic_matrix equals the closed form L_j(r)/L_j(k) for %s, no row swap, no zero pivot, "
        "normalisers non-zero, first parity all ones; MDS and reconstruct-row algebra for every erasure set of every shape with "
        "k+m <= %d.  Implementation: exported make_systematic_matrix(k,m) entry by entry and parity words of basis encodes "
        "(16-bit word 2^i in column j) through the public API against the closed form, GF(2)-linearity of encode on seeded "
        "data, for %s shapes; non-trivial = matrix + basis-encode events" %
        ("all 496 shapes" if thorough else "the 31 shapes (k, 32-k) (each smaller m is a row prefix) and all k+m<=7",
         9 if thorough else 7, "all 496" if thorough else "every 4th (matrix) / 6th (basis) shape plus k=1, m=1, k+m=32"),
        ["TLC", "ASan/UBSan"], exhaustive=thorough)


def c19():
    chk = Check("C19")
    thorough = chk.tier == "thorough"
    be2 = [BE_ISAL_VAND, BE_ISAL_CAUCHY]
    src = open(os.path.join(core.SPEC, "MC_IsaL.cfg")).read().replace("NMax = 7", "NMax = %d" % (11 if thorough else 9))
    open(os.path.join(core.SPEC, "MC_IsaL_run.cfg"), "w").write(src)
    m1 = _bg(tlc, "MC_IsaL", "MC_IsaL_run", workers=8, timeout=6000 if thorough else 2400, tag="C19", heap="12g")
    cmds = roundtrip_cmds(chk, be2, thorough, mode=7 | 8 | 16 | 32)
    i = 0
    for be in be2:
        # every sub-set (beyond tolerance too) for small shapes: exact or refused
        for (k, m) in rs_shapes(9 if thorough else 7):
            i += 1
            cmds.append(sweep_cmd(be, k, m, m, 2, len_classes(be, k)[4], _seed_of(chk, i), 0, k + m, 10**9, 1 | 8))
        # all shapes up to k+m = 32, erasure sets sampled by size (singular survivor sets of the Vandermonde generator occur here)
        for (k, m) in (rs_shapes(32) if thorough else rs_shapes(32)[::9]):
            if k + m <= 8:
                continue
            i += 1
            cmds.append(sweep_cmd(be, k, m, rs_hd(m, i), 1 + i % 2, len_classes(be, k)[(k + m) % 6], _seed_of(chk, i), max(m - 2, 0), m, 12 if thorough else 5, 1 | 2 | 8))
        for (k, m) in rs_shapes(10 if thorough else 7):
            i += 1
            cmds.append(need_cmd(be, k, m, rs_hd(m, i), min(m, 4), 1500, _seed_of(chk, i)))
            cmds.append("sweep_need_len %d %d %d %d %d %d %d %d" % (be, k, m, m, WORD[be], min(m + 1, 6), 30, _seed_of(chk, i)))
    files, events, restarts = run_sweeps("asan", cmds, "C19-asan")
    v = validate("TraceCodes", files)
    _collect(chk, v, ["C19", "C01", "C02", "C03", "C06", "fault", "create failed", "encode failed"])
    r = _join(m1)
    chk.add_tlc(r, "MC_IsaL")
    sing = [json.loads(m.group(1).encode().decode("unicode_escape")) for m in re.finditer(r'<<"SINGULAR", "(.*)">>', r.out)]
    chk.parts["model_singular_survivor_sets"] = len(sing)
    if not r.ok:
        chk.violation({"event": "model", "cfg": "MC_IsaL", "violated": r.violated}, "IsaL model invariant violated: %s\n%s" % (r.violated, r.out[-1500:]))
    # the reference plug-in itself is bound to IsaL.tla: encode bytes of both adapters against the spec's matrices (TraceWire)
    from .checks_wire import enc_cmd
    wc = []
    for be in be2:
        for (k, m) in [(4, 2), (5, 3), (1, 1), (10, 4), (3, 5), (12, 6)] + ([(16, 16), (20, 12), (2, 9)] if thorough else []):
            for L in (1, 3 * k + 1, 7 * k):
                wc.append(enc_cmd(be, k, m, m, 2, L, _seed_of(chk, k * 100 + L), 1))
    fw, ew, rw = run_sweeps("asan", wc, "C19-wire")
    vw = validate("TraceWire", fw, max_lines=200)
    _collect(chk, vw, ["C07", "C08", "C10", "fault", "create failed"])
    c = v.counts or [0] * 12
    chk.cov["distinct_nontrivial"] = c[2] + c[5] + c[7]
    chk.parts.update({"decode_events": c[1], "decode_refused": c[4], "reconstruct_events": c[5], "reconstruct_refused": c[6],
                      "needed_events": c[7], "encode_events_byte_compared": (vw.counts or [0] * 3)[2]})
    _samples(chk, files)
    return _finish_codes(chk,
        "TLC: transcription of the adapter's inverse-row synthesis (isa_l_common.c) is exact for every erasure set |E|<=m of every "
        "shape k+m<=%d whose first k survivor rows are invertible, both generators; Cauchy never singular.  Implementation over a "
        "clean-room reference libisal.so.2: round trip / reconstruct / fragments_needed for all tolerated sets k+m<=%d, every sub-set "
        "for k+m<=%d, sampled sets for shapes up to k+m=32; a refusal within |E|<=m is accepted only if TLC finds the survivor matrix "
        "singular in GF(2^8); the plug-in's matrices, multiply and encode are themselves compared byte for byte with IsaL.tla; "
        "non-trivial = decode events with a missing fragment + reconstruct + fragments_needed events" %
        (11 if thorough else 9, 12 if thorough else 8, 9 if thorough else 7),
        ["TLC", "reference ISA-L plug-in (verif-owned, checked against IsaL.tla)", "ASan/UBSan"])
