"""Configuration spaces shared by the checks."""

XOR_TABLES = [(3, 3, 3), (5, 5, 3), (5, 5, 4), (6, 5, 3), (6, 5, 4), (6, 6, 3), (6, 6, 4), (7, 5, 3), (7, 5, 4),
              (7, 6, 3), (7, 6, 4), (8, 5, 3), (8, 5, 4), (8, 6, 3), (8, 6, 4), (9, 5, 3), (9, 5, 4), (9, 6, 3),
              (9, 6, 4), (10, 5, 3), (10, 5, 4), (10, 6, 3), (10, 6, 4), (11, 6, 3), (11, 6, 4), (12, 6, 3),
              (12, 6, 4), (13, 6, 3), (13, 6, 4), (14, 6, 3), (14, 6, 4), (15, 6, 3), (15, 6, 4), (16, 6, 4),
              (17, 6, 4), (18, 6, 4), (19, 6, 4), (20, 6, 4)]

BE_NULL, BE_XOR, BE_ISAL_VAND, BE_RS, BE_ISAL_CAUCHY = 0, 3, 4, 6, 7
WORD = {BE_XOR: 32, BE_RS: 16, BE_ISAL_VAND: 8, BE_ISAL_CAUCHY: 8, BE_NULL: 32}


def rs_shapes(nmax=32, nmin=2):
    return [(k, m) for k in range(1, nmax) for m in range(1, nmax) if nmin <= k + m <= nmax]


def align(be, k):
    return k * WORD[be] // 8


def len_classes(be, k):
    a = align(be, k)
    return [0, 1, max(a - 1, 0), a, a + 1, 3 * a + 7]


def boundary_rs():
    return [(1, 1), (1, 31), (31, 1), (16, 16), (20, 12), (10, 4), (12, 20), (2, 30), (30, 2)]
