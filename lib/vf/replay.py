"""bin/check <id> --replay <path>: re-run the case stored in a replay file against /repo's current tree."""
import json, os, sys
from . import core
from .shapes import WORD


def replay(prop, path):
    d = json.load(open(path))
    case = d.get("case", {})
    print("replay of %s: %s" % (path, d.get("text", "")[:400]))
    ev = case.get("ev") or {}
    if ev.get("e") == "Fault":
        ev = ev.get("in", {})
    kind = ev.get("e")
    cmds, module = None, "TraceCodes"
    if kind in ("Dec", "Rec") and "seed" in ev:
        w = WORD.get(ev["be"], 16)
        x = ev.get("force", 0) if kind == "Dec" else ev["dest"]
        cmds = ["%s %d %d %d %d %d %d %d %d %d %d %s %s" % ("one_dec" if kind == "Dec" else "one_rec", ev["be"], ev["k"], ev["m"], ev["hd"], w,
                ev["ct"], ev["len"], ev["seed"], x, len(ev["idx"]), " ".join(map(str, ev["idx"])), " ".join(map(str, ev["off"])))]
    elif kind == "Need":
        w = WORD.get(ev["be"], 16)
        cmds = ["one_need %d %d %d %d %d %d %s %d %s" % (ev["be"], ev["k"], ev["m"], ev["hd"], w, len(ev["R"]), " ".join(map(str, ev["R"])),
                len(ev["X"]), " ".join(map(str, ev["X"])))]
    elif case.get("event") == "model":
        cfg = case.get("cfg") or {"C02": "MC_XorDecoder_hd", "C06": "MC_XorPlanner_tol"}.get(prop)
        mod = "MC_Conc" if cfg and cfg.startswith("MC_Conc") else ("MC_Libec" if cfg and cfg.startswith("MC_Libec") else cfg.rsplit("_", 1)[0] if cfg else None)
        if cfg and mod:
            r = core.tlc(mod, cfg, workers=8, timeout=1500)
            print("TLC %s/%s: ok=%s violated=%s" % (mod, cfg, r.ok, r.violated))
            return 0 if r.ok else 1
    elif case.get("event") in ("tsan", "stress-crash", "stress-result"):
        from .checks_conc import run_stress
        res = run_stress("tsan", case["args"], env={"UBSAN_OPTIONS": "", "ASAN_OPTIONS": ""})
        print(json.dumps({k: res[k] for k in ("rc", "result", "races", "race_sites")}))
        return 1 if (res["races"] or res["rc"] not in (0,) or (res["result"] or {}).get("errors")) else 0
    if not cmds:
        print("no single-case replay for this kind of record; the stored case is:")
        print(json.dumps(case)[:3000])
        return 2
    files, n, r = core.run_sweeps("asan", cmds, "replay-" + prop)
    v = core.validate(module, files)
    for (f, ln, reasons, e2) in v.viols:
        print("VIOLATION property=%s replay=%s" % (prop, path))
        print("  %s  %s" % (reasons, json.dumps(e2)[:600]))
    if not v.viols:
        print("replayed case holds on the current tree")
    return 1 if v.viols else 0
