"""Group C: API state machine, ownership, error paths -- C13, C14, C15, C16, C17."""
import json, os, re
from . import core
from .core import Check, tlc, run_sweeps, validate
from .shapes import *
from .checks_codes import _collect, _seed_of, _finish_codes, _bg, _join, sweep_cmd, roundtrip_cmds, _suite
from . import histories as H


def _histories_to_cmds(hists):
    """Each history is a list of driver commands starting with reset; flatten."""
    cmds = []
    for h in hists:
        cmds.append("\n".join(h))
    return cmds


def _edge_paths(cfg_changes, tag, timeout=900, cap=None):
    """Run MC_Libec with EmitPaths and return the printed histories."""
    src = open(os.path.join(core.SPEC, "MC_Libec_registry.cfg")).read()
    for a, b in cfg_changes:
        src = src.replace(a, b)
    name = "MC_Libec_%s" % tag
    open(os.path.join(core.SPEC, name + ".cfg"), "w").write(src)
    r = tlc("MC_Libec", name, workers=1, timeout=timeout, tag=tag, heap="8g")
    paths = H.parse_edges(r.out)
    return r, paths


def _run_hist(chk, scripts, name, prefixes, variant="asan"):
    files, events, restarts = run_sweeps(variant, scripts, name)
    v = validate("TraceLibec", files, max_lines=10**9)
    _collect(chk, v, prefixes)
    return v, files


def _model_registry(chk, thorough):
    cfgname = "MC_Libec_registry"
    src = open(os.path.join(core.SPEC, cfgname + ".cfg")).read()
    full = src.replace("MaxDepth = 9", "MaxDepth = 60")
    open(os.path.join(core.SPEC, "MC_Libec_registry_full.cfg"), "w").write(full)
    r = tlc("MC_Libec", "MC_Libec_registry_full", workers=8, timeout=900, tag="reg")
    chk.add_tlc(r, "MC_Libec_registry_full")
    if not r.ok:
        chk.violation({"event": "model", "cfg": "MC_Libec_registry_full"}, "registry model violates an invariant: %s" % r.out[-2000:])
    if thorough:
        api = src.replace("MaxDepth = 9", "MaxDepth = 60").replace("WithApi = FALSE", "WithApi = TRUE").replace("WithFaults = FALSE", "WithFaults = TRUE")
        open(os.path.join(core.SPEC, "MC_Libec_api_full.cfg"), "w").write(api)
        r2 = tlc("MC_Libec", "MC_Libec_api_full", workers=8, timeout=5000, tag="api")
        chk.add_tlc(r2, "MC_Libec_api_full")
        if not r2.ok:
            chk.violation({"event": "model", "cfg": "MC_Libec_api_full"}, "API model violates an invariant: %s" % r2.out[-2000:])


def c14():
    chk = Check("C14")
    thorough = chk.tier == "thorough"
    m1 = _bg(_model_registry, chk, thorough)
    # G: edge cover of the registry model replayed on the real library
    r, paths = _edge_paths([("EmitPaths = FALSE", "EmitPaths = TRUE"), ("MaxDepth = 9", "MaxDepth = %d" % (60 if thorough else 8))], "edges")
    chk.parts["edge_paths_replayed"] = len(paths)
    scripts = ["\n".join(H.path_to_script(p, i)) for i, p in enumerate(paths)]
    # T: random histories (length 200) over all backends incl. failed creates and counter wrap
    nrand = 400 if thorough else 60
    scripts += ["\n".join(H.random_history(_seed_of(chk, i), 200)) for i in range(nrand)]
    # isolation: after every create/destroy step every live instance still round-trips (C14)
    scripts += ["\n".join(_isolation_history(_seed_of(chk, 5000 + i))) for i in range(60 if thorough else 12)]
    # the same kinds of histories with the calls made from three threads in turn (strictly sequential): "any sequence of
    # calls" does not say from which thread; per-thread caches of lookups, thread-affine state
    scripts += ["\n".join(sc) for sc in _dead_descriptor_across_threads()]
    # two live instances whose descriptors agree in their low bits (tables or bitmaps indexed by descriptor mod 2^j):
    # the second is created with the counter preset to d + 2^j - 1, destroyed, and the first must be unaffected
    for j_ in (8, 12, 16, 20, 24, 30):
        for cfgA, cfgB in (("6 2 1 1 16 2", "6 4 2 2 16 1"), ("3 3 3 3 32 1", "6 2 1 1 16 2")):
            kA = int(cfgA.split()[1]); mA = int(cfgA.split()[2]); idxA = " ".join(map(str, range(1, kA + mA)))
            scripts.append("\n".join(["reset", "create 1 %s" % cfgA, "setnext %d" % ((1 << j_)), "create 2 %s" % cfgB, "probe",
                                       "setnext %d" % (2 * (1 << j_)), "create 3 %s" % cfgA, "destroy s2", "probe",
                                       "encode s1 1 100 7 0 0", "decode s1 1 1 0 -100 0 0 %d %s" % (kA + mA - 1, idxA), "dec_cleanup s1 1 0",
                                       "enc_cleanup s1 1 0", "size s1 100", "destroy s3", "encode s1 2 50 3 0 0", "enc_cleanup s1 2 0",
                                       "destroy s1", "probe"]))
    # hundreds of live instances sharing the GF tables (a reference count or registry that only works for a handful):
    # 257 and 300 RS instances, one destroyed, a survivor decodes with a lost data fragment, all destroyed
    for N, cfg_ in ((257, "6 2 1 1 16 2"), (300, "6 4 2 2 16 1"), (130, "3 3 3 3 32 1")):
        k_ = int(cfg_.split()[1]); m_ = int(cfg_.split()[2])
        idx_ = " ".join(map(str, range(1, k_ + m_)))
        scripts.append("\n".join(["reset", "swarm %d %s" % (N, cfg_), "probe", "destroy d1", "destroy d%d" % (N // 2),
                                   "encode d2 1 100 7 0 0", "decode d2 1 1 0 -100 0 0 %d %s" % (k_ + m_ - 1, idx_), "dec_cleanup d2 1 0",
                                   "recon d2 1 0 0 -100 0 0 %d %s" % (k_ + m_ - 1, idx_), "enc_cleanup d2 1 0",
                                   "encode d%d 2 64 9 0 0" % N, "decode d%d 2 2 0 -100 0 0 %d %s" % (N, k_ + m_ - 1, idx_), "dec_cleanup d%d 2 0" % N,
                                   "enc_cleanup d%d 2 0" % N, "swarm_end", "probe"]))
    scripts += ["\n".join(_threaded(H.random_history(_seed_of(chk, 7000 + i), 200), i)) for i in range(nrand // 2)]
    scripts += ["\n".join(_threaded(_isolation_history(_seed_of(chk, 8000 + i)), i)) for i in range(20 if thorough else 6)]
    v, files = _run_hist(chk, scripts, "C14", ["C14", "C13 create", "C02", "C13/C01", "C13/C03", "fault"])
    # the same wrap and collision histories on the repository's own compiler and optimisation level (gcc -O2): the
    # counter's wrap is signed overflow in C, what it does is the compiler's choice (D13)
    wraps = ["\n".join(sc) for sc in _wrap_collision_histories()]
    scripts_g = wraps + [sc for sc in scripts[:len(paths)] if "setnext" in sc][: (400 if thorough else 120)]
    vg, files_g = _run_hist(chk, scripts_g, "C14-gcc", ["C14", "C13 create", "C02", "fault"], variant="gcc")
    vw, files_w = _run_hist(chk, wraps, "C14-wrap", ["C14", "C13 create", "C02", "fault"])
    chk.parts["gcc_O2_histories"] = len(scripts_g)
    _join(m1)
    c = v.counts or [0] * 16
    chk.cov["distinct_nontrivial"] = c[4] + c[5]
    chk.parts.update({"histories": c[1], "creates": c[3], "successful_creates": c[4], "destroys": c[5], "projections_compared": c[9],
                      "creates_with_skip_or_wrap": c[10], "random_histories": nrand})
    if paths:
        chk.sample({"tlc_history": paths[min(len(paths) - 1, 200)]})
    chk.sample({"script": H.random_history(_seed_of(chk, 0), 30)[:25]})
    _suite(chk, ["C14", "C13 create", "fault"])
    return _finish_codes(chk,
        "TLC: complete state graph of the registry model (3 slots, RS / XOR / refused configurations, descriptor counter in -2..5 so "
        "that every wrap and every skip-over-live configuration is reached): descriptors positive, fresh, failed calls change nothing; "
        "every transition of the graph up to depth %s replayed on the real library (counter preset to INT_MAX for wraps and just below a "
        "live descriptor for collisions), %d seeded random histories of 200 calls and isolation histories (all live instances "
        "round-trip after every create/destroy, RS instances destroyed in every order); every event validated by TLC against Libec with "
        "MaxInt = INT_MAX incl. the exact descriptor value, counter, registry projection and GF-table presence; "
        "non-trivial = successful creates + destroys" % ("60 (complete)" if thorough else "8", nrand),
        ["TLC", "ASan/UBSan", "allocation ledger"], exhaustive=thorough)


def _wrap_collision_histories():
    """The counter lands on live descriptors right at the wrap: live sets {INT_MAX}, {INT_MAX-1, INT_MAX}, {INT_MAX, 1},
    {INT_MAX-1, INT_MAX, 1, 2} with the counter 1 or 2 below the first of them, so that the allocator has to step over
    live descriptors ACROSS the signed wrap (several iterations of its loop, the second or third of which overflows)."""
    M = H.INT_MAX
    out = []
    cfg = "6 2 1 1 16 2"
    cfg2 = "3 3 3 3 32 1"
    for live in ([M], [M - 1, M], [M, 1], [M - 1, M, 1, 2], [M, 1, 2, 3], [M - 2, M - 1, M]):
        for below in (1, 2):
            sc = ["reset"]
            for i, d in enumerate(live):
                sc.append("setnext %d" % (d - 1 if d > 1 else M))
                sc.append("create %d %s" % (i + 1, cfg if i % 2 == 0 else cfg2))
            sc.append("probe")
            sc.append("setnext %d" % (live[0] - below))
            sc.append("create 9 %s" % cfg)
            sc.append("probe")
            sc.append("setnext %d" % (live[0] - below))
            sc.append("create 10 %s" % cfg2)
            sc.append("probe")
            # every instance still works and dies properly
            for s_ in list(range(1, len(live) + 1)) + [9, 10]:
                sc.append("encode s%d %d 100 %d 0 0" % (s_, s_, s_))
                sc.append("enc_cleanup s%d %d 0" % (s_, s_))
            for s_ in [9] + list(range(1, len(live) + 1)) + [10]:
                sc.append("destroy s%d" % s_)
                sc.append("probe")
            out.append(sc)
    return out


THREADABLE = ("create", "create_null", "destroy", "encode", "enc_cleanup", "decode", "recon", "dec_cleanup", "needed", "meta",
              "finv", "vstripe", "size", "probe", "avail")


def _threaded(lines, seed):
    """The same history with its calls made from three different threads, strictly one after the other."""
    import random
    r = random.Random(seed)
    out = []
    for ln in lines:
        c = ln.split()[0] if ln.split() else ""
        out.append((r.choice(["", "t1 ", "t2 ", "t1 ", "t2 ", "t3 "]) + ln) if c in THREADABLE else ln)
    return out


def _dead_descriptor_across_threads():
    """Thread A creates and uses an instance (its last lookup is that descriptor), thread B destroys it, then A, B and C
    try every entry point on the dead descriptor (must be refused), then a new create may reissue it."""
    out = []
    for (be, k, m, hd, w) in [(BE_RS, 4, 2, 2, 16), (BE_XOR, 3, 3, 3, 32), (BE_ISAL_VAND, 4, 2, 2, 8), (BE_RS, 2, 1, 1, 16)]:
        n = k + m
        idx = " ".join(map(str, range(1, n)))
        for (a, b) in (("t1", "t2"), ("t2", "t1"), ("t1", ""), ("", "t2")):
            A = (a + " ") if a else ""
            B = (b + " ") if b else ""
            sc = ["reset", A + "create 1 %d %d %d %d %d 2" % (be, k, m, hd, w), "create 2 %d %d %d %d %d 1" % (be, k, m, hd, w),
                  A + "encode s1 1 100 5 0 0", A + "size s1 100",
                  B + "enc_cleanup s1 1 0", B + "destroy s1", "probe"]
            for who in (A, B, "t3 "):
                sc += [who + "size s1 64", who + "encode s1 3 64 7 0 0", who + "needed s1 0 1 0 0", who + "destroy s1", who + "finv s1 2 0 0"]
            sc += [A + "encode s2 2 100 6 0 0", A + "decode s2 2 1 0 -100 0 0 %d %s" % (n - 1, idx), A + "dec_cleanup s2 1 0",
                   B + "enc_cleanup s2 2 0", "probe", A + "create 3 %d %d %d %d %d 1" % (be, k, m, hd, w), B + "destroy s2", "t3 destroy s3", "probe"]
            out.append(sc)
    return out


def _isolation_history(seed):
    import random
    r = random.Random(seed)
    out = ["reset"]
    slots = {}
    order = []

    def roundtrips():
        for s, (be, k, m, hd, w) in slots.items():
            T = s
            out.append("encode s%d %d %d %d 0 0" % (s, T, 64 + s, seed % 1000 + s))
            tol = (hd - 1) if be == BE_XOR else m
            miss = set(r.sample(range(k + m), min(tol, 1 + r.randrange(tol)))) if tol > 0 else set()
            idx = [i for i in range(k + m) if i not in miss]
            out.append("decode s%d %d %d 0 -100 0 0 %d %s" % (s, T, s, len(idx), " ".join(map(str, idx))))
            out.append("dec_cleanup s%d %d 0" % (s, s))
            if miss:
                out.append("recon s%d %d %d 0 -100 0 0 %d %s" % (s, T, sorted(miss)[0], len(idx), " ".join(map(str, idx))))
            out.append("enc_cleanup s%d %d 0" % (s, T))
    # incl. parity-less RS instances (m = 0 is accepted): they share the GF tables like any other RS instance
    cfgs = [(BE_RS, 2, 1, 1, 16), (BE_RS, 4, 2, 2, 16), (BE_RS, 3, 3, 3, 16), (BE_XOR, 3, 3, 3, 32), (BE_ISAL_VAND, 4, 2, 2, 8), (BE_RS, 5, 2, 2, 16),
            (BE_RS, 4, 0, 0, 16), (BE_RS, 1, 0, 0, 16), (BE_RS, 1, 1, 1, 16), (BE_RS, 20, 12, 12, 16), (BE_XOR, 10, 5, 4, 32), (BE_ISAL_CAUCHY, 5, 3, 3, 8)]
    for s in range(1, 6):
        be, k, m, hd, w = r.choice(cfgs)
        out.append("create %d %d %d %d %d %d %d" % (s, be, k, m, hd, w, 2))
        slots[s] = (be, k, m, hd, w); order.append(s)
        roundtrips()
    r.shuffle(order)
    for s in order:
        out.append("destroy s%d" % s)
        del slots[s]
        roundtrips()
        out.append("probe")
    return out


def c16():
    chk = Check("C16")
    thorough = chk.tier == "thorough"
    m1 = _bg(_model_registry, chk, True)
    # G: TLC behaviours of the API model (ownership actions) -- edge cover up to a depth + simulation
    r, paths = _edge_paths([("EmitPaths = FALSE", "EmitPaths = TRUE"), ("WithApi = FALSE", "WithApi = TRUE"),
                            ("Slots = {1, 2, 3}", "Slots = {1, 2}"), ("MaxDepth = 9", "MaxDepth = %d" % (8 if thorough else 6))], "apiedges", timeout=4000)
    chk.parts["edge_paths_replayed"] = len(paths)
    scripts = ["\n".join(H.path_to_script(p, i)) for i, p in enumerate(paths)]
    nrand = 600 if thorough else 80
    scripts += ["\n".join(H.random_history(_seed_of(chk, i), 300 if thorough else 120)) for i in range(nrand)]
    scripts += ["\n".join(H.random_history(_seed_of(chk, 9000 + i), 120, faults=True)) for i in range(nrand // 4)]
    # allocation-failure enumeration: the n-th allocation request of one public call fails (ledger knob)
    scripts += _alloc_failure_scripts(thorough)
    v, files = _run_hist(chk, scripts, "C16", ["C16", "C17 failed backend operation left", "fault"])
    # ledger rules on the code paths of every tolerated erasure pattern (each decode path allocates differently):
    # all |E| < hd sets of every third XOR table and of small RS / ISA-L shapes, aligned and unaligned inputs
    sw = []
    for ti, (k, m, hd) in enumerate(XOR_TABLES):
        sw.append(sweep_cmd(BE_XOR, k, m, hd, 1 + ti % 2, len_classes(BE_XOR, k)[4], _seed_of(chk, 400 + ti), 0, min(hd, m),
                            (10**9 if hd - 1 <= 3 else 3000) if thorough else 120, 1 | 2 | 8 | 16))
    for be in (BE_RS, BE_ISAL_VAND, BE_ISAL_CAUCHY):
        for (k, m) in rs_shapes(8 if thorough else 6):
            sw.append(sweep_cmd(be, k, m, m, 2, len_classes(be, k)[5], _seed_of(chk, 500 + k * 9 + m), 0, k + m, 10**9, 1 | 2 | 8 | 16))
    for (k, m) in boundary_rs():           # k+m up to 32: the realloc bitmap's high bits, unaligned inputs
        sw.append(sweep_cmd(BE_RS, k, m, m, 2, len_classes(BE_RS, k)[4], _seed_of(chk, 600 + k), 0, min(m + 1, k + m), 25, 1 | 2 | 8 | 16 | 32))
    # the fragments-needed query allocates scratch lists on its planner paths: ordered (R, X) with |R|+|X| <= hd of every
    # XOR table (all, or a seeded sample of 2500), sampled longer ones, and RS (ledger before / after every call)
    from .checks_codes import need_cmd
    for ti, (k, m, hd) in enumerate(XOR_TABLES):
        sw.append(need_cmd(BE_XOR, k, m, hd, hd, 2500 if not thorough else 10**9, _seed_of(chk, 800 + ti)))
        sw.append("sweep_need_len %d %d %d %d %d %d %d %d" % (BE_XOR, k, m, hd, WORD[BE_XOR], hd + 1, 60, _seed_of(chk, 850 + ti)))
    for (k, m) in [(4, 2), (10, 4), (3, 3), (20, 12)]:
        sw.append(need_cmd(BE_RS, k, m, m, min(m + 1, 4), 1500, _seed_of(chk, 870 + k)))
    # refused creates keep nothing: every backend id x shapes around the accepted region x word sizes (create + destroy)
    for be in (0, 3, 4, 6, 7, 1, 2, 5, 8):
        sw.append("create_box %d -1 6 -1 5 %s %d 1" % (be, "2 5" if be == 3 else "0 1", WORD.get(be, 16)))
        sw.append("create_box %d 30 33 -1 3 %s %d 2" % (be, "3 4" if be == 3 else "0 1", WORD.get(be, 16)))
    sw += _w_box()
    # forced metadata checks with invalid fragments in the list, incl. refusals after filtering (the filtered list is an
    # allocation of its own)
    for j, (be, k, m, hd) in enumerate([(BE_RS, 4, 2, 2), (BE_XOR, 5, 5, 3), (BE_RS, 3, 3, 3), (BE_XOR, 6, 6, 4), (BE_RS, 20, 12, 12)]):
        sw.append("sweep_force %d %d %d %d %d 2 %d %d %d" % (be, k, m, hd, WORD[be], 60 + j, _seed_of(chk, 980 + j), 700))
    fs, es, rs_ = run_sweeps("asan", sw, "C16-sweep")
    vs = validate("TraceCodes", fs)
    _collect(chk, vs, ["C16", "fault"])
    cs = vs.counts or [0] * 12
    chk.parts.update({"sweep_decode_events_with_ledger_rules": cs[1], "sweep_reconstruct_events_with_ledger_rules": cs[5]})
    # error paths reached only through particular HEADERS (bad magic / CRC, versions, re-sealed field edits incl. an
    # original length that reads as a negative int, opposite byte order): metadata query, validation, decode and
    # reconstruct (destination above and below the mutated fragment, aligned and unaligned survivors) on each, ledger
    # compared before / after
    from .checks_wire import hdr_cmd, wire_configs
    hc = []
    for ci, (be, k, m, hd) in enumerate(wire_configs(thorough)):
        if be == BE_NULL:
            continue
        hc.append(hdr_cmd(be, k, m, hd, 1 + ci % 2, 40 + 7 * ci, _seed_of(chk, 700 + ci), 2 | 8 | 16 | 32, 24 if thorough else 8))
    fh, eh, rh = run_sweeps("asan", hc, "C16-hdr")
    vh = validate("TraceWire", fh, max_lines=1500)
    _collect(chk, vh, ["C16", "fault"])
    chk.parts["header_events_with_ledger_rule"] = (vh.counts or [0] * 14)[4] if vh.counts else vh.events
    _join(m1)
    c = v.counts or [0] * 16
    chk.cov["distinct_nontrivial"] = c[6] + c[3] + c[5] + cs[1] + cs[5]
    chk.parts.update({"histories": c[1], "calls_with_ledger_rules": c[6] + c[3] + c[5], "failing_calls": c[7], "injected_backend_failures": c[8],
                      "random_histories": nrand})
    chk.sample({"script": H.random_history(_seed_of(chk, 0), 40)[:30]})
    _suite(chk, ["C16", "fault"])
    return _finish_codes(chk,
        "TLC: ownership model (encode/decode hand out, cleanups release, failed calls change nothing) over its complete graph; every "
        "transition up to depth %d and %d seeded random histories (all argument classes, insufficient sets, bad headers, unsupported "
        "shapes, dead descriptors, injected backend failures) replayed under ASan with the allocation ledger compiled into the library; "
        "TLC validates the relative ledger rules R1-R5 on every event (failed call: delta 0; cleanup releases exactly what its call "
        "handed out; calls that hand out nothing: delta 0; quiescent points: baseline) and R6 (no free of a pointer the library does "
        "not own); non-trivial = events subject to a ledger rule" % (8 if thorough else 6, nrand),
        ["TLC", "allocation ledger (-D redirected malloc/free)", "ASan"], exhaustive=False)


def _alloc_failure_scripts(thorough):
    out = []
    cfgs = [(BE_RS, 4, 2, 2, 16), (BE_XOR, 5, 5, 3, 32), (BE_ISAL_VAND, 4, 2, 2, 8)] + ([(BE_RS, 10, 4, 4, 16), (BE_XOR, 6, 6, 4, 32), (BE_ISAL_CAUCHY, 3, 2, 2, 8)] if thorough else [])
    for (be, k, m, hd, w) in cfgs:
        n = k + m
        miss0 = [x for x in range(n) if x != 0]
        idx = " ".join(map(str, miss0))
        ops = {
            "create": ("create 2 %d %d %d %d %d 2" % (be, k, m, hd, w), 14),
            "encode": ("encode s1 2 %d 12 0 0" % (3 * align(be, k) + 1), n + 8),
            "decode": ("decode s1 1 1 0 -100 0 0 %d %s" % (len(miss0), idx), 16),
            "decode_forced": ("decode s1 1 1 1 -100 0 0 %d %s" % (len(miss0), idx), 18),
            "recon": ("recon s1 1 0 0 -100 0 0 %d %s" % (len(miss0), idx), 16),
            "needed": ("needed s1 0 1 0 1 %d" % (n - 1), 8),
        }
        for name, (cmd, top) in ops.items():
            for nth in range(1, top + 1):
                s = ["reset", "create 1 %d %d %d %d %d 2" % (be, k, m, hd, w), "encode s1 1 %d 11 0 0" % (5 * align(be, k) + 3),
                     "failalloc %d" % nth, cmd]
                if name.startswith("decode"):
                    s.append("dec_cleanup s1 1 0")
                if name == "encode":
                    s.append("enc_cleanup s1 2 0")
                if name == "create":
                    s.append("destroy s2")
                # afterwards everything still works
                s += ["decode s1 1 2 0 -100 0 0 %d %s" % (len(miss0), idx), "dec_cleanup s1 2 0", "enc_cleanup s1 1 0", "destroy s1", "probe"]
                out.append("\n".join(s))
    return out


def c13():
    chk = Check("C13")
    thorough = chk.tier == "thorough"
    m1 = _bg(_model_registry, chk, thorough)
    scripts = []
    # argument-class histories
    nrand = 500 if thorough else 80
    scripts += ["\n".join(H.random_history(_seed_of(chk, i), 150)) for i in range(nrand)]
    scripts += ["\n".join(_argclass_history(_seed_of(chk, 7000 + i), i)) for i in range(len(H.GOOD_CFGS) * (3 if thorough else 1))]
    v, files = _run_hist(chk, scripts, "C13", ["C13", "C08 size query on a dead", "fault"])
    # the create box: every shape, every backend id
    box = []
    for be in (0, 3, 4, 6, 7, 1, 2, 5, 8, 9, 255):
        ws = [WORD.get(be, 16)] if not thorough else [-1, 0, 1, 4, 7, 8, 16, 32, 33, 64]
        if be in (4, 7) and not thorough:
            ws = [0, 1, 4, 7, 8, 16]
        for w in ws:
            for k0 in range(-1, 34, 5):
                box.append("create_box %d %d %d -1 33 %s %d 1" % (be, k0, min(k0 + 4, 33), "3 4" if be == 3 else "2 2", w))
    # every backend x word sizes the caller may pass, small (k, m) box: refused or accepted, never a leak or a fault
    box += _w_box()
    fb, eb, rb = run_sweeps("asan", box, "C13-box")
    vb = validate("TraceCodes", fb)
    _collect(chk, vb, ["C13", "C14 create returned descriptor 0", "C16 failed create kept memory", "fault"])
    # accepted instances survive a full cycle (encode/decode/reconstruct/queries/destroy) without faults
    cyc = []
    for be in (3, 4, 6, 7):
        shapes_ = [(k, m, hd) for (k, m, hd) in XOR_TABLES[::5]] if be == 3 else [(1, 0, 0), (3, 0, 0), (1, 1, 1), (2, 1, 1), (31, 1, 1), (1, 31, 31), (16, 16, 16), (4, 2, 2)]
        for (k, m, hd) in shapes_:
            cyc.append(sweep_cmd(be, k, m, hd, 2, 3 * align(be, max(k, 1)) + 1, _seed_of(chk, k * 40 + m), 0, 1, 40, 1 | 8 | 16))
    # ... whatever word size the caller asked for: a configuration is either refused or the instance works (encode,
    # size queries, decode and reconstruct of sampled erasure sets, destroy) without arithmetic or memory faults
    for be, (k, m, hd) in ((BE_RS, (4, 2, 2)), (BE_RS, (3, 3, 3)), (BE_XOR, (5, 5, 3)), (BE_ISAL_VAND, (4, 2, 2)), (BE_ISAL_CAUCHY, (5, 3, 3))):
        for w in (1, 4, 7, 8, 12, 15, 17, 24, 32, 33, 64, 0, -1, -8):
            if w == WORD.get(be, 16):
                continue
            for L in (1, 53, 1000):
                cyc.append("sweep_dec %d %d %d %d %d %d %d %d %d %d %d %d" % (be, k, m, hd, w, 2, L, _seed_of(chk, w * 31 + L), 0, 2, 6, 1 | 8 | 16))
    # ... and whatever checksum type value the caller passed (1 = none and 2 = CRC32 are the two the properties speak of;
    # any other value that create accepts must still give a usable instance)
    for be, (k, m, hd) in ((BE_RS, (4, 2, 2)), (BE_XOR, (5, 5, 3)), (BE_ISAL_VAND, (4, 2, 2))):
        for ct_ in (0, 3, 4, 7, 255, -1):
            cyc.append("sweep_dec %d %d %d %d %d %d %d %d %d %d %d %d" % (be, k, m, hd, WORD[be], ct_, 77, _seed_of(chk, 3000 + ct_), 0, 2, 6, 1 | 8 | 16))
    # fragment lengths shorter than a header with buffers that really are that short (exact-size heap blocks)
    for j, (be, k, m, hd) in enumerate([(BE_RS, 4, 2, 2), (BE_XOR, 6, 6, 4), (BE_ISAL_VAND, 4, 2, 2), (BE_RS, 1, 1, 1)]):
        cyc.append("short_len %d %d %d %d %d %d %d %d" % (be, k, m, hd, WORD[be], 1 + j % 2, 100 + j, _seed_of(chk, 5000 + j)))
    fc, ec, rcn = run_sweeps("asan", cyc, "C13-cycle")
    vc = validate("TraceCodes", fc)
    _collect(chk, vc, ["C13", "C01", "C02", "C03", "fault"])
    _join(m1)
    c = v.counts or [0] * 16
    cb = vb.counts or [0] * 12
    chk.cov["distinct_nontrivial"] = c[7] + cb[11]
    chk.parts.update({"histories": c[1], "api_calls": c[6], "refused_calls": c[7], "create_box_shapes": cb[11]})
    chk.sample({"script": _argclass_history(1, 0)[:30]})
    _suite(chk, ["C13", "C08 size query on a dead", "fault"])
    return _finish_codes(chk,
        "every public entry point with descriptor classes {live, destroyed, never issued, 0, -1, INT_MAX}, NULL pointers singly and "
        "combined, fragment counts {-1,0,k-1}, fragment lengths {0,79}, destinations {-1,n,n+1,INT_MAX,INT_MIN}, output variables "
        "holding decoy pointers, over all executable backends (scripted class vectors + %d seeded random histories); the create box "
        "backend id x k,m in -1..33 x w; accepted instances (incl. m = 0 and k+m = 32) run a full encode/decode/reconstruct cycle; "
        "TLC: refusal class (rc < 0) exactly where the model demands it, nothing kept allocated (ledger), no Fault event (ASan/UBSan); "
        "non-trivial = refused calls + box shapes" % nrand,
        ["TLC", "ASan/UBSan", "allocation ledger"], exhaustive=False)


def _w_box():
    out = []
    for be in (0, 3, 4, 6, 7):
        for w in (-8, -1, 1, 4, 7, 9, 12, 15, 17, 24, 31, 33, 48, 63, 64, 65, 128, 255, 256, 65536):
            out.append("create_box %d 1 5 0 3 %s %d %d" % (be, "3 4" if be == 3 else "0 2", w, 1 + (w % 2)))
    return out


def _argclass_history(seed, i):
    """Scripted argument-class vectors of DESIGN Appendix B for one configuration."""
    be, k, m, hd, w = H.GOOD_CFGS[i % len(H.GOOD_CFGS)]
    n = k + m
    out = ["reset", "create 1 %d %d %d %d %d 2" % (be, k, m, hd, w), "create 2 %d %d %d %d %d 1" % (be, k, m, hd, w), "destroy s2",
           "encode s1 1 %d %d 0 0" % (3 * align(be, k) + 1, seed % 100000)]
    descs = ["s1", "s2", "d0", "d-1", "d%d" % H.INT_MAX, "d4242"]
    full = list(range(n))
    one_missing = [x for x in full if x != (0 if be != BE_NULL else n - 1)]
    for d in descs:
        for mask in (0, 1, 2, 4, 8, 3, 5, 6, 9, 10, 12, 7, 11, 13, 14, 15):
            if d == "s1" and mask == 0:
                continue
            for outs in (0, 1):
                out.append("encode %s 2 %d 9 %d %d" % (d, 10, mask, outs))
        out.append("enc_cleanup %s 3 3" % d)
        for mask in (0, 1, 2, 4, 3, 5, 6, 7):
            out.append("decode %s 1 1 0 -100 0 %d %d %s" % (d, mask, len(one_missing), " ".join(map(str, one_missing))))
            out.append("dec_cleanup s1 1 0")
        for nfrag in (-1, 0, max(k - 1, 0)):
            out.append("decode %s 1 1 1 %d 0 0 %d %s" % (d, nfrag, len(full), " ".join(map(str, full))))
            out.append("dec_cleanup s1 1 0")
            out.append("recon %s 1 %d 0 %d 0 0 %d %s" % (d, 0, nfrag, len(full), " ".join(map(str, full))))
        for flc in (1, 2):
            out.append("decode %s 1 1 0 -100 %d 0 %d %s" % (d, flc, len(one_missing), " ".join(map(str, one_missing))))
            out.append("dec_cleanup s1 1 0")
            out.append("recon %s 1 %d 0 -100 %d 0 %d %s" % (d, one_missing[0], flc, len(one_missing), " ".join(map(str, one_missing))))
        for mask in (1, 2, 3):
            out.append("recon %s 1 0 0 -100 0 %d %d %s" % (d, mask, len(one_missing), " ".join(map(str, one_missing))))
        for dest in (-1, n, n + 1, H.INT_MAX, -H.INT_MAX - 1, 0, n - 1):
            out.append("recon %s 1 %d 0 -100 0 0 %d %s" % (d, dest, len(one_missing), " ".join(map(str, one_missing))))
            out.append("recon %s 1 %d 0 -100 0 0 %d %s" % (d, dest, len(full), " ".join(map(str, full))))
        for mask in (0, 1, 2, 4, 3, 5, 6, 7):
            out.append("needed %s %d 1 0 1 1" % (d, mask))
        out.append("dec_cleanup %s 2 1" % d)
        for mask in (0, 1):
            out.append("finv %s 1 0 %d" % (d, mask))
        for nn in (-1, 0, 1, n):
            for mask in (0, 1):
                out.append("vstripe %s 1 %d %d" % (d, nn, mask))
        for L in (0, 1, 1 << 20):
            out.append("size %s %d" % (d, L))
        out.append("destroy %s" % d if d != "s1" else "probe")
    for mask in (0, 1, 2, 3):
        out.append("meta 1 0 %d" % mask)
    for b in (-1, 0, 3, 6, 8, 9, 255):
        out.append("avail %d" % b)
    out += ["enc_cleanup s1 1 0", "destroy s1", "probe"]
    return out


def c17():
    chk = Check("C17", level="fault_enumeration")
    thorough = chk.tier == "thorough"
    scripts = []
    cases = 0
    for (be, k, m, hd, w) in H.GOOD_CFGS:
        if be == BE_NULL:
            continue
        n = k + m
        miss0 = [x for x in range(n) if x != 0]
        missP = [x for x in range(n) if x != n - 1]
        for op in range(5):
            for nth in (1, 2, 3):
                for variant in ((0, 1) if op in (1, 2, 3, 4) else (0,)):
                    cases += 1
                    s = ["reset", "create 1 %d %d %d %d %d 2" % (be, k, m, hd, w)]
                    s.append("arm %d %d %d %d" % (be, op, nth, variant))
                    # workload: two invocations of every backend operation
                    s += ["create 2 %d %d %d %d %d 1" % (be, k, m, hd, w), "create 3 %d %d %d %d %d 1" % (be, k, m, hd, w)]
                    s += ["encode s1 1 %d 11 0 0" % (5 * align(be, k) + 3), "encode s1 2 %d 12 0 0" % (align(be, k))]
                    s += ["decode s1 1 1 0 -100 0 0 %d %s" % (len(miss0), " ".join(map(str, miss0))), "dec_cleanup s1 1 0",
                          "decode s1 1 1 1 -100 0 0 %d %s" % (len(miss0), " ".join(map(str, miss0))), "dec_cleanup s1 1 0"]
                    s += ["recon s1 1 0 0 -100 0 0 %d %s" % (len(miss0), " ".join(map(str, miss0))),
                          "recon s1 1 %d 0 -100 0 0 %d %s" % (n - 1, len(missP), " ".join(map(str, missP)))]
                    s += ["needed s1 0 1 0 0", "needed s1 0 1 %d 0" % (n - 1)]
                    s += ["disarm", "probe"]
                    # continuation: everything works normally afterwards
                    s += ["encode s1 3 %d 13 0 0" % (2 * align(be, k) + 1),
                          "decode s1 3 2 0 -100 0 0 %d %s" % (len(miss0), " ".join(map(str, miss0))), "dec_cleanup s1 2 0",
                          "recon s1 3 0 0 -100 0 0 %d %s" % (len(miss0), " ".join(map(str, miss0))), "needed s1 0 1 0 0",
                          "create 4 %d %d %d %d %d 1" % (be, k, m, hd, w),
                          "enc_cleanup s1 1 0", "enc_cleanup s1 2 0", "enc_cleanup s1 3 0",
                          "destroy s1", "destroy s2", "destroy s3", "destroy s4", "probe"]
                    scripts.append("\n".join(s))
    # wide codes with as many fragments missing as the code tolerates when the backend operation fails (error paths
    # that format or walk the missing list)
    for (be, k, m, w) in ((BE_RS, 2, 30, 16), (BE_RS, 4, 28, 16), (BE_RS, 1, 31, 16), (BE_ISAL_CAUCHY, 3, 29, 8)):
        n = k + m
        for nkeep in (k, k + 1, k + 4):
            keep = list(range(n - nkeep, n))
            for op in (2, 3):
                for variant in (0, 1):
                    cases += 1
                    s = ["reset", "create 1 %d %d %d %d %d 2" % (be, k, m, m, w), "encode s1 1 %d 11 0 0" % (7 * align(be, k) + 3),
                         "arm %d %d 1 %d" % (be, op, variant)]
                    if op == 2:
                        s += ["decode s1 1 1 0 -100 0 0 %d %s" % (len(keep), " ".join(map(str, keep))), "dec_cleanup s1 1 0"]
                    else:
                        s += ["recon s1 1 0 0 -100 0 0 %d %s" % (len(keep), " ".join(map(str, keep)))]
                    s += ["disarm", "decode s1 1 2 0 -100 0 0 %d %s" % (len(keep), " ".join(map(str, keep))), "dec_cleanup s1 2 0",
                          "recon s1 1 0 0 -100 0 0 %d %s" % (len(keep), " ".join(map(str, keep))),
                          "enc_cleanup s1 1 0", "destroy s1", "probe"]
                    scripts.append("\n".join(s))
    # ISA-L: the plug-in's matrix inversion fails (reference plug-in knob) -- decode and reconstruct must refuse cleanly
    for be in (BE_ISAL_VAND, BE_ISAL_CAUCHY):
        for nth in (1, 2):
            scripts.append("\n".join(["reset", "create 1 %d 4 2 2 8 2" % be, "encode s1 1 50 3 0 0", "isal_fail_invert %d" % nth,
                                       "decode s1 1 1 0 -100 0 0 5 1 2 3 4 5", "dec_cleanup s1 1 0", "recon s1 1 0 0 -100 0 0 5 1 2 3 4 5",
                                       "isal_fail_invert 0", "decode s1 1 1 0 -100 0 0 5 1 2 3 4 5", "dec_cleanup s1 1 0",
                                       "enc_cleanup s1 1 0", "destroy s1", "probe"]))
    nrand = 200 if thorough else 40
    scripts += ["\n".join(H.random_history(_seed_of(chk, i), 150, faults=True)) for i in range(nrand)]
    # G: behaviours of the API model with failing backend operations as actions of their own (MC_Libec, WithFaults):
    # every transition of the graph in which a create / encode / decode / reconstruct fails, in every reachable
    # registry and ownership state, followed by every continuation up to the depth bound
    r, paths = _edge_paths([("EmitPaths = FALSE", "EmitPaths = TRUE"), ("WithApi = FALSE", "WithApi = TRUE"),
                            ("WithFaults = FALSE", "WithFaults = TRUE"), ("Slots = {1, 2, 3}", "Slots = {1, 2}"),
                            ("MaxDepth = 9", "MaxDepth = %d" % (7 if thorough else 6))], "faultedges", timeout=4000)
    chk.add_tlc(r, "MC_Libec_faultedges")
    if not r.ok:
        chk.violation({"event": "model", "cfg": "MC_Libec_faultedges"}, "API model with failing backend operations violates a property: %s" % r.out[-1500:])
    fpaths = [p_ for p_ in paths if any(st_["op"].endswith("_fail") for st_ in p_)]
    chk.parts["model_fault_histories_replayed"] = len(fpaths)
    scripts += ["\n".join(H.path_to_script(p_, i)) for i, p_ in enumerate(fpaths)]
    v, files = _run_hist(chk, scripts, "C17", ["C17", "C16", "C13", "C14", "C02", "fault"])
    # a backend's init that refuses by itself (unsupported word size, unsupported flat-XOR shape) is a failing init too: the
    # stub replaces init entirely and never reaches those exits
    wb = _w_box() + ["create_box 3 1 8 1 7 2 5 32 1"]
    fwb, ewb, rwb = run_sweeps("asan", wb, "C17-box")
    vwb = validate("TraceCodes", fwb)
    _collect(chk, vwb, ["C16 failed create kept memory", "C16 create+destroy", "fault"])
    c = v.counts or [0] * 16
    chk.cov["evaluations"] = max(chk.cov["evaluations"], 1)
    chk.cov["distinct_nontrivial"] = c[8]
    chk.parts.update({"fault_positions_scripted": cases, "injected_failures_that_fired": c[8], "histories": c[1], "random_histories": nrand})
    chk.sample({"script": scripts[7].split("\n")})
    _suite(chk, ["C17", "fault"])
    return _finish_codes(chk,
        "for every executable backend configuration, every backend operation (init, encode, decode, reconstruct, fragments_needed), "
        "every position n in {1,2,3} of a scripted workload that invokes each operation twice, and two failure variants (fail before / "
        "after doing the work): the operation table entry is swapped for a failing stub for exactly the n-th call (the seam "
        "test_encode_invalid_args uses); ISA-L matrix-inversion failures through the reference plug-in; %d seeded random histories with "
        "random injections.  TLC validates on the recorded trace: fired => rc < 0, ledger delta 0, nothing owed, registry projection "
        "unchanged, and the continuation (encode/decode/reconstruct/needed/create/destroy) succeeds; "
        "non-trivial = injected failures that actually fired" % nrand,
        ["TLC", "allocation ledger", "ASan/UBSan", "failing stubs installed by the harness"], exhaustive=False)


def c15():
    chk = Check("C15")
    thorough = chk.tier == "thorough"
    from . import checks_wire as cw
    # (1) guarded mode: every caller input on read-only pages that end at a PROT_NONE page (plain build)
    cmds = roundtrip_cmds(chk, [BE_XOR, BE_RS, BE_ISAL_VAND, BE_ISAL_CAUCHY], thorough, mode=1 | 4 | 8 | 16)
    if not thorough:
        # guard-page placement costs an mmap per fragment: in the quick tier every shape and length class runs, with a
        # seeded sample of at most 12 erasure sets each (the thorough tier is exhaustive where C01 is)
        capped = []
        for c_ in cmds:
            t_ = c_.split()
            if t_[0] == "sweep_dec" and int(t_[11]) > 12:
                t_[11] = "12"
            capped.append(" ".join(t_))
        cmds = capped
    i = 0
    for ti, (k, m, hd) in enumerate(XOR_TABLES[::4]):      # beyond tolerance as well (C02's space, sampled)
        i += 1
        cmds.append(sweep_cmd(BE_XOR, k, m, hd, 2, len_classes(BE_XOR, k)[4], _seed_of(chk, i), hd, k + m, 30, 1 | 8))
    for (k, m) in [(4, 2), (2, 4), (10, 4), (1, 1)]:
        i += 1
        cmds.append(sweep_cmd(BE_RS, k, m, m, 2, len_classes(BE_RS, k)[5], _seed_of(chk, i), 0, k + m, 60, 1 | 8))
    # a fragment length shorter than a header, the buffers really that short and ending at the guard page
    for j, (be, k, m, hd) in enumerate([(BE_RS, 4, 2, 2), (BE_XOR, 6, 6, 4), (BE_ISAL_CAUCHY, 5, 3, 3), (BE_RS, 10, 4, 4)]):
        cmds.append("short_len %d %d %d %d %d %d %d %d" % (be, k, m, hd, WORD[be], 1 + j % 2, 64 + j, _seed_of(chk, 5100 + j)))
    f1, e1, r1 = run_sweeps("plain", cmds, "C15-guard", guard=True)
    v1 = validate("TraceCodes", f1)
    _collect(chk, v1, ["C15", "fault", "create failed", "encode failed", "C13 fragment length shorter"])
    c1 = v1.counts or [0] * 12
    # metadata query / validation / encode on guarded inputs
    wc = ["layout"]
    for ci, (be, k, m, hd) in enumerate(cw.wire_configs(thorough)):
        for ct in (1, 2):
            wc.append(cw.hdr_cmd(be, k, m, hd, ct, [37, 5, 100][ci % 3], _seed_of(chk, ci), 1 | 2 | 8 | 16 | 32 | 64, 30))
            for L in (0, 1, 3 * align(be, k) + 1, 5000):
                wc.append(cw.enc_cmd(be, k, m, hd, ct, L, _seed_of(chk, ci * 10 + L), 2))
    f2, e2, r2 = run_sweeps("plain", wc, "C15-guardwire", guard=True)
    v2 = validate("TraceWire", f2, max_lines=600)
    _collect(chk, v2, ["C15", "C09 validation modified", "fault", "create failed", "encode failed"])
    c2 = v2.counts or [0] * 14
    # (2) history independence: same (configuration, data) encoded in a fresh process, after random histories,
    #     with other instances alive, after injected failures, and from a second thread
    cfgs = H.GOOD_CFGS[:8]
    lens = [0, 1, 77, 4099]
    def probes(slotbase, threaded):
        out = []
        for ci, (be, k, m, hd, w) in enumerate(cfgs):
            s = slotbase + ci
            out.append("create %d %d %d %d %d %d 2" % (s, be, k, m, hd, w))
            for L in lens:
                out.append("enc_digest s%d %d %d %d" % (s, L, 1000 + ci * 10 + L % 7, threaded))
        return out
    scripts = []
    scripts.append("\n".join(["reset"] + probes(10, 0)))                                            # fresh process
    nh = 40 if thorough else 10
    for j in range(nh):
        hist = H.random_history(_seed_of(chk, 300 + j), 120, faults=(j % 2 == 1), nslots=5)
        # keep the random history's instances alive: drop its wind-down, then probe, then reset
        scripts.append("\n".join(hist + probes(10, j % 3 == 2)))
    files, ev_, rs_ = run_sweeps("asan", scripts, "C15-pure", merge=False)
    allf = os.path.join(core.WORK, "C15-pure", "all.ndjson")
    with open(allf, "w") as o:
        for f in files:
            o.write(open(f).read())
    v3 = validate("TracePure", [allf], max_lines=10**9)
    _collect(chk, v3, ["C15", "fault"])
    c3 = v3.counts or [0] * 4
    m1 = tlc("MC_Libec", "MC_Libec_registry", workers=4, timeout=600, tag="C15")
    chk.add_tlc(m1, "MC_Libec_registry")
    chk.cov["distinct_nontrivial"] = c1[1] + c1[5] + c2[4] + c3[1]
    chk.parts.update({"guarded_decode_events": c1[1], "guarded_reconstruct_events": c1[5], "guarded_header_events": c2[4],
                      "guarded_encode_events": c2[1], "purity_encodes": c3[0], "purity_encodes_compared_with_an_earlier_history": c3[1],
                      "histories_preceding_the_probes": nh})
    chk.sample({"purity_probe": "enc_digest s10 77 1007 0 after: " + " ; ".join(H.random_history(_seed_of(chk, 300), 12)[:10])})
    return _finish_codes(chk,
        "(1) decode/reconstruct (C01-C03 scenario space incl. beyond tolerance), get_fragment_metadata, is_invalid_fragment(_header), "
        "decode/reconstruct on mutated headers and encode, with every caller input placed on PROT_READ pages that end exactly at a "
        "PROT_NONE page: a write or an over-read is a Fault event, which no specification action explains; inputs also digest-compared "
        "before/after.  (2) the same (configuration, data) encoded in a fresh process, after %d different seeded API histories (with "
        "other instances alive, after injected backend failures) and from a second thread running concurrently with another encode: "
        "TLC keeps seen[(configuration, data)] and requires identical digests of all fragment bytes; "
        "non-trivial = guarded events + compared encodes" % nh,
        ["TLC", "page protection (mprotect) as the monitor for stray accesses", "FNV digest over all fragment bytes"], exhaustive=False)
