"""Group D: concurrency -- C18."""
import json, os, re, subprocess, time
from . import core
from .core import Check, tlc
from .checks_codes import _seed_of, _finish_codes, _bg, _join


def run_stress(variant, args, timeout=900, env=None):
    bdir = core.build(variant)
    e = dict(os.environ)
    e.update(core.run_env(bdir, env))
    t0 = time.time()
    p = subprocess.run(["timeout", str(timeout), os.path.join(bdir, "drv_conc")] + [str(a) for a in args],
                       env=e, stdout=subprocess.PIPE, stderr=subprocess.PIPE, text=True)
    res = None
    for line in p.stdout.split("\n"):
        if line.startswith("{"):
            try:
                res = json.loads(line)
            except Exception:
                pass
    races = re.findall(r"WARNING: ThreadSanitizer: data race.*?(?=\n\n|\Z)", p.stderr, re.S)
    locs = []
    for r in races:
        m = re.findall(r"#0 (\S+) (/repo/\S+?):(\d+)", r)
        if m:
            locs.append(tuple("%s %s:%s" % x for x in m[:2]))
    return {"rc": p.returncode, "result": res, "races": len(races), "race_sites": sorted(set(locs))[:12],
            "stderr_tail": p.stderr[-1500:], "wall": time.time() - t0, "args": list(args)}


def run_sched(variant, lines, name, timeout=2400):
    bdir = core.build(variant)
    wd = core.workdir(name)
    # several processes in parallel: the scenarios are independent
    nproc = min(core.NCPU, max(1, len(lines) // 200))
    procs, outs = [], []
    for i in range(nproc):
        sp = os.path.join(wd, "s%02d.txt" % i); op = os.path.join(wd, "y%02d.ndjson" % i)
        open(sp, "w").write("\n".join(lines[i::nproc]) + "\n")
        e = dict(os.environ); e.update(core.run_env(bdir, {"ASAN_OPTIONS": "detect_odr_violation=0:exitcode=97:detect_leaks=0"}))
        procs.append((subprocess.Popen(["timeout", str(timeout), os.path.join(bdir, "drv_sched"), sp, op], env=e,
                                       stdout=subprocess.PIPE, stderr=subprocess.STDOUT, text=True), op))
    res = {"scenarios": 0, "diverged": 0, "result_errors": 0, "crashed": []}
    for p, op in procs:
        o, _ = p.communicate()
        m = re.search(r"scenarios=(\d+) diverged=(\d+) result_errors=(\d+)", o or "")
        if p.returncode != 0 or not m:
            res["crashed"].append((p.returncode, (o or "")[-1200:]))
        else:
            res["scenarios"] += int(m.group(1)); res["diverged"] += int(m.group(2)); res["result_errors"] += int(m.group(3))
        # a crashed driver may leave a torn last line: keep complete events only
        good = []
        if os.path.exists(op):
            for ln in open(op):
                if ln.endswith("\n"):
                    try:
                        json.loads(ln); good.append(ln)
                    except Exception:
                        pass
        open(op, "w").writelines(good)
        outs.append(op)
    return res, outs


def sched_part(chk, thorough):
    """G: TLC-generated schedules (edge cover of LibecConc, safe discipline) drive real threads through the yield points;
    T: every recorded schedule, controlled and free-running, is validated against LibecConc by TLC."""
    lines = []
    total_edges = 0
    for pre in ("TRUE", "FALSE"):
        r = tlc("MC_Conc", "MC_Conc_emit_%s" % pre, workers=1, timeout=1500, tag="C18e" + pre, heap="8g")
        edges = re.findall(r'^"EDGE (\[.*\])"$', r.out, re.M)
        total_edges += len(edges)
        step = 1 if thorough else (12 if pre == "TRUE" else 2)
        off = chk.seed % step
        for e in edges[off::step]:
            tids = json.loads(e)
            lines.append("%d 2 %d 0 : %s" % (1 if pre == "TRUE" else 0, 1 if pre == "TRUE" else 0, " ".join(map(str, tids))))
    nfree = 600 if thorough else 150
    for i in range(nfree):
        lines.append("%d %d %d 1 :" % (i % 2, 2 + i % 2, (i // 2) % 3))
    res, outs = run_sched("asan", lines, "C18-sched")
    chk.parts.update({"model_edges": total_edges, "schedules_replayed": res["scenarios"] - nfree, "free_running_scenarios": nfree,
                      "schedule_divergences": res["diverged"]})
    for rc, tail in res["crashed"]:
        chk.violation({"event": "sched-crash", "rc": rc, "reasons": ["C18 crash under a controlled schedule"]},
                      "drv_sched ended with rc=%s: %s" % (rc, tail))
    v = core.validate("TraceConc", outs, max_lines=10**9)
    from .checks_codes import _collect
    _collect(chk, v, ["C18"])
    c = v.counts or [0] * 6
    chk.parts.update({"yield_events_validated": c[1], "scenarios_validated": c[0]})
    if c[1] == 0:
        chk.violation({"event": "coverage", "reasons": ["C18 no yield event recorded"]},
                      "no yield event was recorded: the hooks (guard LIBERASURECODE_VERIF) are not reached")


def c18():
    chk = Check("C18")
    thorough = chk.tier == "thorough"
    # M: interleaving model under the discipline the tree implements
    results = []
    for pre in ("TRUE", "FALSE"):
        name = "MC_Conc_tree_%s" % pre
        if thorough:
            src = open(os.path.join(core.SPEC, name + ".cfg")).read()
            src = src.replace("Threads = {1, 2}", "Threads = {1, 2, 3}").replace("Nodes = {1, 2}", "Nodes = {1, 2, 3}")
            if pre == "TRUE":
                src = src.replace("SharedUsers = {3}", "SharedUsers = {4, 5}")
            name = name + "_big"
            open(os.path.join(core.SPEC, name + ".cfg"), "w").write(src)
        r = tlc("MC_Conc", name, workers=8, timeout=6000, tag="C18" + pre, heap="16g")
        chk.add_tlc(r, name)
        results.append(r)
        if not r.ok:
            trace = re.findall(r'pc = (.*)', r.out)
            chk.violation({"event": "model", "cfg": name, "violated": r.violated, "reasons": ["C18 model: " + ",".join(r.violated)]},
                          "LibecConc under the discipline of the current tree (SafeInTree) violates %s; last program counters: %s" %
                          (r.violated, trace[-1] if trace else "?"))
    # the safe discipline must be race free and the pinned one must not (sanity of the model itself)
    for nm, expect_ok in (("MC_Conc_safe_TRUE", True), ("MC_Conc_pinned_TRUE", False)):
        r = tlc("MC_Conc", nm, workers=4, timeout=600, tag="C18s")
        chk.add_tlc(r, nm)
        if r.ok != expect_ok:
            raise RuntimeError("LibecConc sanity: %s expected ok=%s" % (nm, expect_ok))
    # monitor: ThreadSanitizer on free-running stress (no scheduler: its synchronisation would hide races)
    runs = [(4, 2, 150, 0), (4, 0, 200, 1), (2, 2, 300, 3), (8, 0, 60, 1), (4, 4, 120, 4), (6, 1, 40, 8)] if not thorough else \
           [(n, s, 400, md) for n in (2, 4, 8, 14) for s in (0, 2) for md in (0, 1, 3, 4)] + [(n, 1, 150, 8) for n in (4, 6, 10)]
    total_ops = 0
    nstress = 0
    for i, (n, s, it, md) in enumerate(runs):
        res = run_stress("tsan", [n, s, it, _seed_of(chk, i), md], env={"UBSAN_OPTIONS": "", "ASAN_OPTIONS": ""})
        chk.cov["evaluations"] += 1; nstress += 1
        total_ops += (res["result"] or {}).get("ops", 0)
        if res["races"]:
            chk.violation({"event": "tsan", "args": res["args"], "sites": res["race_sites"], "reasons": ["C18 data race"]},
                          "ThreadSanitizer: %d data race report(s) in drv_conc %s; sites: %s" % (res["races"], res["args"], res["race_sites"][:4]))
        if res["result"] is None or res["rc"] not in (0, 66):
            chk.violation({"event": "stress-crash", "args": res["args"], "rc": res["rc"], "reasons": ["C18 crash or wrong result under concurrency"]},
                          "drv_conc %s ended with rc=%s: %s %s" % (res["args"], res["rc"], res["result"], res["stderr_tail"][-600:]))
        elif res["result"].get("errors"):
            chk.violation({"event": "stress-result", "args": res["args"], "first_error": res["result"].get("first_error"), "reasons": ["C18 result differs from the sequential result"]},
                          "drv_conc %s: %s" % (res["args"], res["result"]))
    # first-ever concurrent RS creates under ASan (the model's tables-not-ready counterexample on the real library)
    for i in range(6 if not thorough else 30):
        res = run_stress("asan", [6, 0, 3, _seed_of(chk, 100 + i), 3], env={"ASAN_OPTIONS": "detect_odr_violation=0:exitcode=97:detect_leaks=0"})
        chk.cov["evaluations"] += 1
        if res["result"] is None or res["rc"] != 0:
            chk.violation({"event": "stress-crash", "args": res["args"], "rc": res["rc"], "reasons": ["C18 crash or wrong result under concurrency"]},
                          "drv_conc(asan) %s ended with rc=%s: %s %s" % (res["args"], res["rc"], res["result"], res["stderr_tail"][-600:]))
            break
    # dozens of live instances, destroyed by all threads at once, under ASan (a stale unlink shows as a use-after-free
    # or as a destroy that no longer finds its own instance)
    for i, n_ in enumerate((6, 10) if not thorough else (4, 6, 10, 14)):
        res = run_stress("asan", [n_, 1 - i % 2, 40 if not thorough else 150, _seed_of(chk, 200 + i), 8],
                         env={"ASAN_OPTIONS": "detect_odr_violation=0:exitcode=97:detect_leaks=0"})
        chk.cov["evaluations"] += 1
        if res["result"] is None or res["rc"] != 0:
            chk.violation({"event": "stress-crash", "args": res["args"], "rc": res["rc"], "reasons": ["C18 crash or wrong result under concurrency"]},
                          "drv_conc(asan, many live instances) %s ended with rc=%s: %s %s" % (res["args"], res["rc"], res["result"], res["stderr_tail"][-600:]))
            break
    sched_part(chk, thorough)
    chk.parts["stress_runs"] = nstress
    chk.parts["stress_api_calls"] = total_ops
    chk.cov["distinct_nontrivial"] = chk.cov["states"]
    chk.sample({"stress": "drv_conc creators=4 shared=2 iters=150 mode=0", "model": "Threads={1,2} SharedUsers={3} Pre=TRUE"})
    return chk


def c18_finish(chk):
    thorough = chk.tier == "thorough"
    return _finish_codes(chk,
        "TLC: all interleavings of the registry/GF-table protocol at shared-access granularity for %s under the discipline the tree "
        "implements: NoRace (no two enabled conflicting accesses without a common lock), NoBad (no use-after-free, no use of half-built "
        "tables, no missed live instance), UniqueDesc; lock-annotated traces recorded at the guarded yield points of the real library "
        "under TLC-generated and free-running schedules validated against the same specification; ThreadSanitizer on free-running "
        "stress (2..14 threads, own instances of RS / flat XOR / ISA-L and a shared descriptor, first-ever RS creates racing) as the "
        "monitor below the yield granularity; every thread checks its results against the sequential expectation; "
        "non-trivial = distinct model states" % ("3 creators + 2 shared users" if thorough else "2 creators + 1 shared user"),
        ["TLC", "ThreadSanitizer", "ASan", "yield hooks (guard LIBERASURECODE_VERIF)"], exhaustive=True)
