"""The repository's own test programs as a source of API histories (trace validation of unmodified tests).

test/liberasurecode_test.c and test/libec_slap.c are compiled from the tree under test against the instrumented build,
with every public entry point redirected (-D) to the recording wrappers of harness/suiteshim.c; the recorded history is
validated by spec/TraceLibec.tla.  The events are cached in the build directory (keyed by the tree's content hash),
so the checks that use them share one run."""
import fcntl, os, shutil, subprocess, time
from . import core

API = ["backend_available", "instance_create", "instance_destroy", "encode", "encode_cleanup", "decode", "decode_cleanup",
       "reconstruct_fragment", "fragments_needed", "get_fragment_metadata", "verify_stripe_metadata",
       "get_aligned_data_size", "get_fragment_size"]
PROGRAMS = [("liberasurecode_test", "test/liberasurecode_test.c", []), ("libec_slap", "test/libec_slap.c", [])]


def record(thorough=False, timeout=900):
    """Returns (list of event files, info dict).  Never raises for a test program that does not build or aborts:
    that is recorded in info (the suite is an extra source of histories, not a dependency of the checks)."""
    bdir = core.build("asan")
    out = os.path.join(bdir, "suite")
    info_p = os.path.join(out, "info-%s.json" % ("thorough" if thorough else "quick"))
    import json
    os.makedirs(out, exist_ok=True)
    with open(os.path.join(bdir, "suite.lock"), "w") as lk:
        fcntl.flock(lk, fcntl.LOCK_EX)
        if os.path.exists(info_p):
            info = json.load(open(info_p))
            return [f for f in info["files"] if os.path.exists(f)], info
        info = {"files": [], "programs": {}}
        R = core.REPO
        inc = " ".join("-I%s/%s" % (R, d) for d in ["include", "include/erasurecode", "include/xor_codes", "include/rs_vand", "test"])
        inc += " -I%s/fallback" % core.HARNESS
        flags = core.VARIANTS["asan"][0]
        redirect = " ".join("-Dliberasurecode_%s=vs_%s" % (a, a) for a in API) + " -Dfree=vs_free"
        shim_o = os.path.join(out, "suiteshim.o")
        p = subprocess.run("clang %s -D_GNU_SOURCE=1 -std=gnu99 %s -c -o %s %s/suiteshim.c" % (flags, inc, shim_o, core.HARNESS),
                           shell=True, stdout=subprocess.PIPE, stderr=subprocess.STDOUT, text=True)
        if p.returncode:
            raise RuntimeError("suiteshim does not compile:\n" + p.stdout[-3000:])
        for name, src, args in (PROGRAMS if thorough else PROGRAMS[:1]):
            srcp = os.path.join(R, src)
            rec = {"built": False, "exit": None, "events": 0}
            info["programs"][name] = rec
            if not os.path.exists(srcp):
                continue
            exe = os.path.join(out, name)
            c = ("clang %s -D_GNU_SOURCE=1 -std=gnu99 -w %s %s -o %s %s %s -L%s -lerasurecode -l:libXorcode.so.1 -lverifledger -lverifsync "
                 "-lpthread -lz -ldl -lm -Wl,-rpath,%s" % (flags, inc, redirect, exe, srcp, shim_o, bdir, bdir))
            p = subprocess.run(c, shell=True, stdout=subprocess.PIPE, stderr=subprocess.STDOUT, text=True)
            if p.returncode:
                rec["build_error"] = p.stdout[-1500:]
                continue
            rec["built"] = True
            ev = os.path.join(out, name + ".ndjson")
            env = dict(os.environ)
            env.update(core.run_env(bdir, {"VERIF_SUITE_EVENTS": ev}))
            env["ASAN_OPTIONS"] += ":detect_leaks=0"
            env["VERIF_LEDGER_QUIET"] = "1"
            t0 = time.time()
            try:
                p = subprocess.run([exe] + args, cwd=out, env=env, stdout=subprocess.PIPE, stderr=subprocess.STDOUT, text=True,
                                   timeout=timeout, errors="replace")
                rec["exit"] = p.returncode
                rec["tail"] = p.stdout[-1200:]
                rec["ok_lines"] = p.stdout.count(" ok")
            except subprocess.TimeoutExpired:
                rec["exit"] = "timeout"
            rec["wall_s"] = round(time.time() - t0, 1)
            if os.path.exists(ev):
                # drop a torn last line
                lines = [l for l in open(ev, errors="replace").read().split("\n") if l.startswith("{") and l.endswith("}")]
                open(ev, "w").write("\n".join(lines) + "\n")
                rec["events"] = len(lines)
                if lines:
                    info["files"].append(ev)
        json.dump(info, open(info_p, "w"), indent=1)
        return info["files"], info


def validate_into(chk, prefixes, thorough=None):
    """Validate the suite's histories for check chk; violations whose text starts with one of prefixes are its own."""
    from .checks_codes import _collect
    files, info = record(chk.tier == "thorough" if thorough is None else thorough)
    progs = info["programs"]
    chk.parts["suite_histories"] = {n: {"events": r.get("events", 0), "exit": r.get("exit"), "built": r.get("built")} for n, r in progs.items()}
    for n, r in progs.items():
        # a sanitizer report or a signal inside the repository's own test program (the unchanged tree runs them clean)
        if r.get("exit") in (97, 98) or (isinstance(r.get("exit"), int) and r["exit"] < 0 and r["exit"] != -6):
            if "fault" in prefixes:
                chk.violation({"event": "suite-fault", "program": n, "exit": r["exit"]},
                              "fault: the repository's test program %s died under ASan/UBSan (exit %s): %s" % (n, r["exit"], r.get("tail", "")[-600:]))
    if not files:
        return None
    work = core.workdir("%s-suite" % chk.prop)
    local = []
    for f in files:
        d = os.path.join(work, os.path.basename(f))
        shutil.copy(f, d)
        local.append(d)
    v = core.validate("TraceLibec", local, max_lines=10**9)
    _collect(chk, v, prefixes)
    return v
