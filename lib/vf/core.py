"""Framework core: build variants of /repo, run the driver, run TLC, evidence, findings.

Python 3 standard library only.  Everything is rebuilt from /repo's working tree,
cached by a content hash of src/ + include/ + the harness sources.
"""
import hashlib, json, os, re, shutil, subprocess, sys, time, glob

VERIF = os.path.dirname(os.path.dirname(os.path.dirname(os.path.abspath(__file__))))
REPO = os.environ.get("VERIF_REPO", "/repo")
BUILD = os.path.join(VERIF, ".build")
WORK = os.environ.get("VERIF_WORK") or os.path.join(VERIF, ".work")
SPEC = os.path.join(VERIF, "spec")
HARNESS = os.path.join(VERIF, "harness")
EVID = os.environ.get("VERIF_EVID") or os.path.join(VERIF, "evidence")
REPLAYS = os.environ.get("VERIF_REPLAYS") or os.path.join(VERIF, "replays")
GUARD = "LIBERASURECODE_VERIF"
NCPU = os.cpu_count() or 4

LIB_SRC = ["erasurecode.c", "erasurecode_helpers.c", "erasurecode_preprocessing.c",
           "erasurecode_postprocessing.c", "utils/chksum/crc32.c", "utils/chksum/alg_sig.c",
           "backends/null/null.c", "backends/xor/flat_xor_hd.c",
           "backends/jerasure/jerasure_rs_vand.c", "backends/jerasure/jerasure_rs_cauchy.c",
           "backends/isa-l/isa_l_common.c", "backends/isa-l/isa_l_rs_vand.c",
           "backends/isa-l/isa_l_rs_cauchy.c", "backends/rs_vand/liberasurecode_rs_vand.c",
           "builtin/rs_vand/rs_galois.c", "backends/shss/shss.c", "backends/phazrio/libphazr.c"]



def am_sources(rel, var, fallback):
    """Source list of an automake target, read from the tree under test (so that a refactoring that adds, splits or
    renames source files and updates Makefile.am is built as the maintainer builds it); the pinned list otherwise."""
    try:
        txt = open(os.path.join(REPO, "src", rel, "Makefile.am")).read().replace("\\\n", " ")
        m = re.search(r"^%s\s*=\s*(.*)$" % re.escape(var), txt, re.M)
        names = [w for w in m.group(1).split() if w.endswith(".c")]
        base = os.path.join(REPO, "src", rel)
        if names and all(os.path.isfile(os.path.join(base, n)) for n in names):
            return [os.path.normpath(os.path.join(rel, n)) for n in names]
    except Exception:
        pass
    return fallback


VARIANTS = {
    # name: (compiler flags, use ledger, sse)
    "asan":  ("-g -O1 -fno-omit-frame-pointer -fsanitize=address,undefined "
              "-fno-sanitize=alignment,function -fno-sanitize-recover=all "
              "-fsanitize-recover=signed-integer-overflow,shift-base", True, True),
    "plain": ("-g -O2", True, True),
    "nosse": ("-g -O2", True, False),
    "tsan":  ("-g -O1 -fsanitize=thread", False, True),
    # the repository's own compiler and optimisation level (configure: gcc -O2): undefined behaviour that clang's
    # code generation happens to tolerate can change results here (D13: the descriptor counter's signed overflow)
    "gcc":   ("-g -O2", True, True),
}
COMPILER = {"gcc": "gcc"}


def log(*a):
    print(*a, file=sys.stderr, flush=True)


def sh(cmd, timeout=600, env=None, cwd=None, check=True, capture=True):
    e = dict(os.environ)
    if env:
        e.update(env)
    p = subprocess.run(cmd, shell=isinstance(cmd, str), timeout=timeout, env=e, cwd=cwd,
                       stdout=subprocess.PIPE if capture else None,
                       stderr=subprocess.STDOUT if capture else None, text=True)
    if check and p.returncode != 0:
        raise RuntimeError("command failed (%d): %s\n%s" % (p.returncode, cmd, (p.stdout or "")[-4000:]))
    return p


def _tree_hash(paths, extra=""):
    h = hashlib.sha256()
    h.update(extra.encode())
    for root in paths:
        if os.path.isfile(root):
            files = [root]
        else:
            files = []
            for d, _, fs in os.walk(root):
                for f in fs:
                    if f.endswith((".c", ".h", ".inc", ".sh", ".am")):
                        files.append(os.path.join(d, f))
        for f in sorted(files):
            h.update(f.encode())
            with open(f, "rb") as fh:
                h.update(fh.read())
    return h.hexdigest()[:16]


def repo_hash():
    return _tree_hash([os.path.join(REPO, "src"), os.path.join(REPO, "include")])


def build(variant, extra_defs=""):
    """Build the four shared objects + helper libs + driver for a variant; returns dir."""
    flags, ledger, sse = VARIANTS[variant]
    key = _tree_hash([os.path.join(REPO, "src"), os.path.join(REPO, "include"), HARNESS],
                     extra=variant + flags + extra_defs + ("noguard" if variant == "gcc" else ""))
    out = os.path.join(BUILD, "%s-%s" % (variant, key))
    stamp = os.path.join(out, ".ok")
    if os.path.exists(stamp):
        return out
    os.makedirs(BUILD, exist_ok=True)
    # drop stale builds of the same variant (disk is limited), keeping the few most recent ones: checks of
    # different trees (e.g. a scratch worktree via VERIF_REPO) may run at the same time
    olds = sorted([d for d in glob.glob(os.path.join(BUILD, variant + "-*")) if ".tmp" not in d], key=os.path.getmtime)
    for old in olds[:-8]:
        # never a build that may still be in use by a check running against another tree at the same time
        if time.time() - os.path.getmtime(old) > 3 * 3600:
            shutil.rmtree(old, ignore_errors=True)
    tmp = out + ".tmp%d" % os.getpid()
    shutil.rmtree(tmp, ignore_errors=True)
    os.makedirs(tmp)
    R = REPO
    inc = " ".join("-I%s/%s" % (R, d) for d in
                   ["include", "include/erasurecode", "include/xor_codes", "include/rs_vand",
                    "include/isa_l", "include/shss"])
    # config_liberasurecode.h is generated by configure (untracked): a copy is used only when the tree under test
    # (e.g. a scratch git worktree) does not have its own
    inc += " -I%s/fallback" % HARNESS
    ssef = "-msse2 -DINTEL_SSE2" if sse else ""
    # the gcc variant is the production configuration: hooks compiled out (they also keep gcc from inlining the
    # registry walk into the descriptor allocator, which is what makes the overflow matter)
    guard = "" if variant == "gcc" else "-D" + GUARD
    cf = "%s -fPIC -D_GNU_SOURCE=1 -std=gnu99 %s -DARCH_64 %s %s %s" % (flags, ssef, guard, extra_defs, inc)
    red = ("-Dmalloc=verif_malloc -Dcalloc=verif_calloc -Dfree=verif_free "
           "-Dposix_memalign=verif_posix_memalign -Dstrdup=verif_strdup") if ledger else ""
    red += (" -Dpthread_rwlock_rdlock=verif_rdlock -Dpthread_rwlock_wrlock=verif_wrlock -Dpthread_rwlock_unlock=verif_rwunlock"
            " -Dpthread_mutex_lock=verif_mutex_lock -Dpthread_mutex_unlock=verif_mutex_unlock")
    cc = COMPILER.get(variant, "clang")
    t0 = time.time()
    cmds = []
    base_flags = flags
    sh("%s %s -fPIC -shared -o %s/libverifsync.so %s/syncwrap.c -lpthread" % (cc, base_flags, tmp, HARNESS))
    cmds.append("%s %s -fPIC -shared -o %s/libverifledger.so %s/ledger.c -lpthread" % (cc, base_flags, tmp, HARNESS))
    L = "-L%s %s -lverifsync" % (tmp, "-lverifledger" if ledger else "")
    cmds.append("%s -O2 -fPIC -shared -o %s/libisal.so.2 %s/refisal.c" % (cc, tmp, HARNESS))
    s = lambda names: " ".join("%s/src/%s" % (R, n) for n in names)
    cmds.append("%s %s %s -shared -o %s/libXorcode.so.1 %s %s" % (
        cc, cf, red, tmp, s(am_sources("builtin/xor_codes", "libXorcode_la_SOURCES", ["builtin/xor_codes/xor_code.c", "builtin/xor_codes/xor_hd_code.c"])), L))
    cmds.append("%s %s %s -shared -o %s/libnullcode.so.1 %s %s" % (
        cc, cf, red, tmp, s(am_sources("builtin/null_code", "libnullcode_la_SOURCES", ["builtin/null_code/null_code.c"])), L))
    cmds.append("%s %s %s -shared -o %s/liberasurecode_rs_vand.so.1 %s %s" % (
        cc, cf, red, tmp, s(am_sources("builtin/rs_vand", "liberasurecode_rs_vand_la_SOURCES", ["builtin/rs_vand/rs_galois.c", "builtin/rs_vand/liberasurecode_rs_vand.c"])), L))
    # independent ones in parallel
    procs = [subprocess.Popen(c, shell=True, stdout=subprocess.PIPE, stderr=subprocess.STDOUT, text=True)
             for c in cmds[:2]]
    for p, c in zip(procs, cmds[:2]):
        o, _ = p.communicate()
        if p.returncode:
            raise RuntimeError("build failed: %s\n%s" % (c, o))
    procs = [subprocess.Popen(c, shell=True, stdout=subprocess.PIPE, stderr=subprocess.STDOUT, text=True)
             for c in cmds[2:]]
    for p, c in zip(procs, cmds[2:]):
        o, _ = p.communicate()
        if p.returncode:
            raise RuntimeError("build failed: %s\n%s" % (c, o))
    # main library: compile objects in parallel
    objs = []
    procs = []
    for n in am_sources("", "liberasurecode_la_SOURCES", LIB_SRC):
        o = os.path.join(tmp, n.replace("/", "_") + ".o")
        objs.append(o)
        c = "%s %s %s -c -o %s %s/src/%s" % (cc, cf, red, o, R, n)
        procs.append((subprocess.Popen(c, shell=True, stdout=subprocess.PIPE, stderr=subprocess.STDOUT, text=True), c))
    for p, c in procs:
        o, _ = p.communicate()
        if p.returncode:
            raise RuntimeError("build failed: %s\n%s" % (c, o))
    sh("%s %s -shared -o %s/liberasurecode.so.1 %s -L%s -l:libXorcode.so.1 %s -lpthread -lm -lz -ldl" % (
        cc, base_flags, tmp, " ".join(objs), tmp, L))
    for o in objs:
        os.unlink(o)
    os.symlink("liberasurecode.so.1", os.path.join(tmp, "liberasurecode.so"))
    # driver(s)
    drv_flags = "%s -D_GNU_SOURCE=1 -std=gnu99 %s %s" % (flags, guard, inc)
    for drv in sorted(glob.glob(os.path.join(HARNESS, "drv_*.c")) + glob.glob(os.path.join(HARNESS, "ecdrive.c"))):
        name = os.path.splitext(os.path.basename(drv))[0]
        if name == "ecdrive" and not ledger:
            continue                       # the scripted driver reads the ledger counters
        if name != "ecdrive" and variant == "gcc":
            continue                       # the thread drivers need the yield hooks
        sh("%s %s -o %s/%s %s -L%s -lerasurecode -l:libXorcode.so.1 %s -lverifsync -lpthread -lz -ldl "
           "-Wl,-rpath,%s" % (cc, drv_flags, tmp, name, drv, tmp, "-lverifledger" if ledger else "", out))
    open(os.path.join(tmp, ".ok"), "w").write("%s %.1fs\n" % (key, time.time() - t0))
    shutil.rmtree(out, ignore_errors=True)
    os.rename(tmp, out)
    log("[build] %s in %.1fs -> %s" % (variant, time.time() - t0, out))
    return out


def run_env(bdir, extra=None):
    e = {
        "LD_LIBRARY_PATH": bdir,
        "ASAN_OPTIONS": "detect_odr_violation=0:exitcode=97:abort_on_error=0:detect_leaks=1:allocator_may_return_null=1",
        "UBSAN_OPTIONS": "print_stacktrace=1:exitcode=98",
        "TSAN_OPTIONS": "exitcode=66:halt_on_error=0:second_deadlock_stack=1",
        "LSAN_OPTIONS": "exitcode=96",
    }
    if extra:
        e.update(extra)
    return e


# ---------------------------------------------------------------- TLC

TLC_JAR = "/opt/veriftools/tla/tla2tools.jar:/opt/veriftools/tla/CommunityModules-deps.jar"


class TlcResult:
    def __init__(self, rc, out, wall):
        self.rc, self.out, self.wall = rc, out, wall
        self.generated = self.distinct = 0
        m = re.findall(r"(\d+) states generated, (\d+) distinct states found", out)
        if m:
            self.generated, self.distinct = int(m[-1][0]), int(m[-1][1])
        self.ok = (rc == 0 and "Model checking completed. No error has been found." in out)
        self.violated = re.findall(r"Invariant (\S+) is violated", out)
        self.post_false = "Postcondition" in out and "is false" in out or "violated" in out and "postcondition" in out.lower()
        self.prints = []  # PrintT outputs that are JSON-tagged

    def tagged(self, tag):
        """Return list of values printed as  <<"TAG", "json">>  lines."""
        res = []
        for m in re.finditer(r'<<"%s", "(.*)">>' % re.escape(tag), self.out):
            s = m.group(1).encode().decode("unicode_escape")
            try:
                res.append(json.loads(s))
            except Exception:
                res.append(s)
        return res


def tlc(module, cfg=None, workers=None, timeout=900, env=None, extra="", simulate=None, heap="8g",
        deadlock=False, tag=None):
    """Run TLC on spec/<module>.tla with spec/<cfg>.cfg. Exit 2-style failures raise."""
    os.makedirs(WORK, exist_ok=True)
    md = os.path.join(WORK, "tlc-%s-%d-%d" % (tag or module, os.getpid(), int(time.time() * 1000) % 1000000))
    cfgp = os.path.join(SPEC, (cfg or module) + ".cfg")
    w = workers or NCPU
    cmd = ["timeout", str(timeout), "java", "-XX:+UseParallelGC", "-Xmx" + heap, "-Xss16m",
           "-cp", TLC_JAR, "tlc2.TLC", "-workers", str(w), "-noGenerateSpecTE", "-metadir", md, "-config", cfgp]
    if not deadlock:
        cmd.append("-deadlock")
    if simulate:
        cmd += ["-simulate", simulate]
    if extra:
        cmd += extra.split()
    cmd.append(os.path.join(SPEC, module + ".tla"))
    e = dict(os.environ)
    if env:
        e.update({k: str(v) for k, v in env.items()})
    t0 = time.time()
    p = subprocess.run(cmd, cwd=SPEC, env=e, stdout=subprocess.PIPE, stderr=subprocess.STDOUT, text=True)
    shutil.rmtree(md, ignore_errors=True)
    r = TlcResult(p.returncode, p.stdout, time.time() - t0)
    if p.returncode == 124:
        raise RuntimeError("TLC timeout (%ds) on %s/%s" % (timeout, module, cfg))
    if "Parsing or semantic analysis failed" in p.stdout or "TLC threw an unexpected exception" in p.stdout \
            or "Error: " in p.stdout and not r.violated and "Postcondition" not in p.stdout \
            and "is violated" not in p.stdout and "Deadlock" not in p.stdout:
        raise RuntimeError("TLC error on %s/%s:\n%s" % (module, cfg, p.stdout[-6000:]))
    return r


# ---------------------------------------------------------------- findings / evidence

def load_findings():
    p = os.path.join(VERIF, "known_findings.json")
    if not os.path.exists(p):
        return []
    return json.load(open(p)).get("findings", [])


def match_finding(prop, case, findings=None):
    """A violation case (dict) matches an open finding when every key of finding['match']
    equals the case's value (lists in the finding = any-of)."""
    for f in (findings if findings is not None else load_findings()):
        if f.get("property") != prop or f.get("status") != "open":
            continue
        ok = True
        for k, v in f.get("match", {}).items():
            cv = case.get(k)
            if isinstance(v, list) and not isinstance(cv, list):
                if cv not in v:
                    ok = False
            elif cv != v:
                ok = False
            if not ok:
                break
        if ok:
            return f
    return None


class Check:
    """Accumulates coverage + violations for one property run; writes evidence; exit code."""

    def __init__(self, prop, level="model_checking"):
        self.prop = prop
        self.tier = os.environ.get("VERIF_TIER", "quick")
        self.seed = int(os.environ.get("VERIF_SEED", "1") or 1)
        self.level = level
        self.t0 = time.time()
        self.cov = {"states": 0, "transitions": 0, "traces_validated_against_impl": 0, "samples": [],
                    "evaluations": 0, "distinct_nontrivial": 0, "rule": "", "trusted_base": [],
                    "exhaustive": False}
        self.assumptions = []
        self.violations = []   # list of (case dict, text)
        self.known = []
        self.parts = {}

    def add_tlc(self, r, name=None):
        self.cov["states"] += r.distinct
        self.cov["transitions"] += r.generated
        if name:
            self.parts[name] = {"distinct": r.distinct, "generated": r.generated, "wall_s": round(r.wall, 1)}

    def sample(self, s, cap=6):
        if len(self.cov["samples"]) < cap:
            self.cov["samples"].append(s)

    def violation(self, case, text):
        f = match_finding(self.prop, case)
        if f:
            self.known.append((f, case))
        else:
            self.violations.append((case, text))

    def finish(self):
        os.makedirs(EVID, exist_ok=True)
        seen = set()
        for f, case in self.known:
            if f["id"] in seen:
                continue
            seen.add(f["id"])
            print("KNOWN-FINDING: property=%s %s" % (self.prop, f["what"]))
        rc = 0
        if self.violations:
            rc = 1
            d = os.path.join(REPLAYS, self.prop)
            os.makedirs(d, exist_ok=True)
            for i, (case, text) in enumerate(self.violations[:20]):
                p = os.path.join(d, "%d.json" % i)
                json.dump({"property": self.prop, "case": case, "text": text}, open(p, "w"), indent=1)
                print("VIOLATION property=%s replay=%s" % (self.prop, p))
                print("  " + text[:600])
        ev = {"property_id": self.prop, "tier": self.tier if self.tier in ("quick", "thorough") else "quick",
              "seed": self.seed, "level": self.level, "coverage": dict(self.cov, parts=self.parts),
              "assumptions": self.assumptions, "wall_s": round(time.time() - self.t0, 1),
              "violations": len(self.violations), "known_findings": len(self.known)}
        if not ev["coverage"]["samples"]:
            ev["coverage"]["samples"] = ["(none recorded)"]
        json.dump(ev, open(os.path.join(EVID, self.prop + ".json"), "w"), indent=1)
        if rc == 0 and not os.environ.get("VERIF_KEEP_WORK") and os.path.isdir(WORK):
            # event files of a passing run are not needed again (thorough tiers write gigabytes)
            for n in os.listdir(WORK):
                if n == self.prop or n.startswith(self.prop + "-"):
                    shutil.rmtree(os.path.join(WORK, n), ignore_errors=True)
        return rc


def workdir(name):
    d = os.path.join(WORK, name)
    shutil.rmtree(d, ignore_errors=True)
    os.makedirs(d)
    return d


# ---------------------------------------------------------------- driver + trace validation

def run_sweeps(variant, cmds, name, nproc=None, guard=False, env=None, timeout=5400, merge=True):
    """Distribute self-contained driver commands over ecdrive processes (work queue of chunks).
    Returns (list of event files, total events, total restarts-after-fault)."""
    bdir = build(variant)
    wd = workdir(name)
    nproc = nproc or NCPU
    nchunks = min(max(1, len(cmds)), 4 * nproc)
    chunks = [[] for _ in range(nchunks)]
    for i, c in enumerate(cmds):
        chunks[i % nchunks].append(c)
    e = dict(os.environ)
    e.update(run_env(bdir, env))
    pending = list(enumerate(chunks))
    running, outs, events, restarts = [], [], 0, 0
    while pending or running:
        while pending and len(running) < nproc:
            i, sc = pending.pop(0)
            sp = os.path.join(wd, "s%03d.txt" % i)
            op = os.path.join(wd, "c%03d.ndjson" % i)
            open(sp, "w").write("\n".join(sc) + "\n")
            cmd = ["timeout", str(timeout), os.path.join(bdir, "ecdrive"), sp, op] + (["guard"] if guard else [])
            running.append((subprocess.Popen(cmd, env=e, stdout=subprocess.PIPE, stderr=subprocess.STDOUT, text=True), op))
        # reap any finished process
        done = None
        while done is None:
            for j, (p, op) in enumerate(running):
                if p.poll() is not None:
                    done = j
                    break
            if done is None:
                time.sleep(0.02)
        p, op = running.pop(done)
        o = p.stdout.read()
        if p.returncode != 0:
            for q, _ in running:
                q.kill()
            raise RuntimeError("ecdrive failed rc=%d: %s" % (p.returncode, (o or "")[-2000:]))
        m = re.search(r"events=(\d+) calls=(\d+) restarts=(\d+)", o or "")
        if m:
            events += int(m.group(1)); restarts += int(m.group(3))
        outs.append(op)
    if not merge:
        return sorted(outs), events, restarts
    # merge chunk outputs into about nproc files of similar size for validation
    outs.sort(key=lambda f: -os.path.getsize(f))
    groups = [[0, []] for _ in range(min(nproc, len(outs)))]
    for f in outs:
        g = min(groups, key=lambda g: g[0])
        g[0] += os.path.getsize(f); g[1].append(f)
    files = []
    for gi, (sz, fs) in enumerate(groups):
        op = os.path.join(wd, "e%02d.ndjson" % gi)
        with open(op, "wb") as o:
            for f in fs:
                with open(f, "rb") as fh:
                    shutil.copyfileobj(fh, o)
                os.unlink(f)
        files.append(op)
    return files, events, restarts


def split_file(path, max_lines=60000):
    out = []
    with open(path) as f:
        lines = f.readlines()
    if len(lines) <= max_lines:
        return [path]
    for i in range(0, len(lines), max_lines):
        p = "%s.part%03d" % (path, i // max_lines)
        open(p, "w").writelines(lines[i:i + max_lines])
        out.append(p)
    return out


class TraceVerdict:
    def __init__(self):
        self.viols = []     # (file, lineno, [reasons], event dict)
        self.drift = 0
        self.counts = None
        self.events = 0
        self.states = 0
        self.files = 0
        self.rejected = []  # files whose trace was not fully consumed


def validate(module, files, cfg=None, env=None, timeout=3600, max_lines=60000, nproc=None):
    """Validate ndjson traces with spec/<module>.tla, one single-worker TLC per shard, in parallel."""
    shards = []
    for f in files:
        if os.path.getsize(f) == 0:
            continue
        shards += split_file(f, max_lines)
    v = TraceVerdict()
    nproc = nproc or NCPU
    os.makedirs(WORK, exist_ok=True)
    cfgp = os.path.join(SPEC, (cfg or module) + ".cfg")
    running = []
    pending = list(shards)
    results = []

    def launch(sh_):
        md = os.path.join(WORK, "tv-%d-%d" % (os.getpid(), abs(hash(sh_)) % 10**9))
        e = dict(os.environ)
        e["TRACE"] = sh_
        if env:
            e.update({k: str(x) for k, x in env.items()})
        cmd = ["timeout", str(timeout), "java", "-XX:+UseSerialGC", "-Xmx3g", "-Xss32m", "-cp", TLC_JAR, "tlc2.TLC",
               "-workers", "1", "-noGenerateSpecTE", "-metadir", md, "-config", cfgp, os.path.join(SPEC, module + ".tla")]
        return (subprocess.Popen(cmd, cwd=SPEC, env=e, stdout=subprocess.PIPE, stderr=subprocess.STDOUT, text=True), sh_, md)

    while pending or running:
        while pending and len(running) < nproc:
            running.append(launch(pending.pop(0)))
        p, sh_, md = running.pop(0)
        o, _ = p.communicate()
        shutil.rmtree(md, ignore_errors=True)
        results.append((sh_, p.returncode, o))
    for sh_, rc, o in results:
        if rc == 124:
            raise RuntimeError("TLC timeout validating %s" % sh_)
        if "Parsing or semantic analysis failed" in o or "TLC threw an unexpected exception" in o or "OutOfMemoryError" in o:
            raise RuntimeError("TLC error validating %s:\n%s" % (sh_, o[-5000:]))
        # an evaluation error on an event (e.g. a field the recorder could not fill in because the library refused
        # something the model says it must accept) is a trace the specification does not accept: reported as a rejected
        # trace with TLC's message, not as a failure of the harness
        lines = None
        for m in re.finditer(r'^"VIOL (\d+) (.*)"$', o, re.M):
            if lines is None:
                lines = open(sh_).read().split("\n")
            ln = int(m.group(1))
            try:
                reasons = json.loads(m.group(2).encode().decode("unicode_escape"))
            except Exception:
                reasons = [m.group(2)]
            try:
                ev = json.loads(lines[ln - 1])
            except Exception:
                ev = {"raw": lines[ln - 1][:500]}
            v.viols.append((sh_, ln, reasons, ev))
        v.drift += len(re.findall(r'^"DRIFT (\d+)"$', o, re.M))
        m = re.search(r'^"COUNTS (.*)"$', o, re.M)
        if m:
            c = json.loads(m.group(1).encode().decode("unicode_escape"))
            v.counts = c if v.counts is None else [a + b for a, b in zip(v.counts, c)]
        m = re.findall(r"(\d+) states generated, (\d+) distinct states found", o)
        if m:
            v.states += int(m[-1][1])
        v.files += 1
        consumed = "Model checking completed. No error has been found." in o
        if not consumed:
            v.rejected.append((sh_, o[-1500:]))
    v.events = sum(1 for f in shards for _ in open(f))
    return v
