from . import checks_codes as cc
CHECKS = {
    "C01": cc.c01,
    "C02": cc.c02,
    "C03": cc.c03,
    "C04": cc.c04,
    "C05": cc.c05,
    "C06": cc.c06,
}
