from . import checks_codes as cc
from . import checks_wire as cw
from . import checks_api as ca
from . import checks_conc as cn


def _c18():
    return cn.c18_finish(cn.c18())

CHECKS = {
    "C01": cc.c01, "C02": cc.c02, "C03": cc.c03, "C04": cc.c04, "C05": cc.c05, "C06": cc.c06,
    "C07": cw.c07, "C08": cw.c08, "C09": cw.c09, "C10": cw.c10, "C11": cw.c11, "C12": cw.c12, "C20": cw.c20,
    "C19": cc.c19,
    "C13": ca.c13, "C15": ca.c15, "C18": _c18, "C14": ca.c14, "C16": ca.c16, "C17": ca.c17,
}
