#!/usr/bin/env python3
"""Run the repository's own test suite (guard OFF, in-tree autotools build) and compare with BASELINE.json."""
import json, re, subprocess, sys
base = json.load(open("/root/.vp/BASELINE.json"))["stable_pass"]
p = subprocess.run("cd /repo && make -j8 >/dev/null 2>&1; make test 2>&1", shell=True, stdout=subprocess.PIPE, text=True)
out = p.stdout
ok = set()
for line in out.split("\n"):
    m = re.match(r"^(\d+ - .*) \.\.\. ok", line)
    if m:
        ok.add(m.group(1))
    if line.startswith("Encode:"):
        ok.add("Encode")
missing = [b for b in base if b not in ok]
print("baseline %d, passed now %d, missing %d, make test rc=%d" % (len(base), len(ok & set(base)), len(missing), p.returncode))
for m in missing[:20]:
    print("  MISSING:", m)
sys.exit(1 if missing or p.returncode else 0)
