#!/usr/bin/env python3
"""Generate /verif/MANIFEST.json from the per-property table below."""
import json, os, subprocess, sys
sys.path.insert(0, os.path.join(os.path.dirname(os.path.dirname(os.path.abspath(__file__))), "lib"))
from vf import registry

MC = "model_checking"
P = {
 "C01": (MC, "5/C01", "TLC model checking of the transcribed XOR decoder within tolerance (all 38 tables) + TLC trace validation of bounded-exhaustive decode runs of the real library",
         "TLC proves the decoder model recovers every < hd erasure set; every tolerated erasure set of every XOR table and of every RS shape up to the bound is decoded by the real library in three fragment arrangements and each result is validated by TLC against the tolerance predicate of the specification.",
         "TLC; the driver's memcmp against its own original data; ASan/UBSan; allocation ledger. RS shapes above the bound are sampled (seeded)."),
 "C02": (MC, "5/C02", "TLC model checking of the transcribed XOR decoder over every erasure set the front end admits + trace validation of exhaustive sub-set decodes/reconstructs under ASan",
         "No-silent-corruption is an invariant of the decoder transcription over all erasure sets (<= hd quick, <= m thorough) and every recorded decode/reconstruct of every sub-set must satisfy rc=0 => exact bytes; crashes are Fault events no specification action explains.",
         "TLC; ASan/UBSan as the monitor that turns stray accesses into Fault events; driver memcmp."),
 "C03": (MC, "5/C03", "TLC (reconstruct-row algebra, XOR reconstruct transcription) + trace validation of reconstruct events (byte identity with the encoded fragment)",
         "Reconstruct algebra is model-checked; every missing index of every tolerated erasure set is reconstructed by the real library and compared byte for byte; out-of-range destinations must be refused.",
         "TLC; driver memcmp; ASan/UBSan."),
 "C04": (MC, "5/C04", "TLC: transcription of make_systematic_matrix = closed form L_j(r)/L_j(k) for all shapes, MDS for small n; trace validation of the exported matrix and of basis encodes",
         "The closed form of the property is the specification; TLC shows the code's algorithm yields it and validates the real matrix entries and real parity words of basis data against it.",
         "TLC's GF(2^16) arithmetic defined from the polynomial 0x1100b alone; ASan/UBSan."),
 "C05": (MC, "5/C05", "TLC: GF(2) rank of every < hd erasure set of the 38 golden tables, decoder/reconstruct transcription exact; trace validation of equation extraction and exhaustive decode/reconstruct on SSE2 and portable builds",
         "Distance and decodability are model-checked on a frozen copy of the equations; the implementation's equations are extracted through the public API and compared; every < hd set is decoded and reconstructed for several payload sizes and both build flavours.",
         "TLC; golden tables transcribed once from the pinned header; ASan/UBSan."),
 "C06": (MC, "5/C06", "TLC model checking of the transcribed planner over every ordered (R,X) + trace validation of every such call of the real library against NeededOK",
         "NeededOK (distinct, in range, disjoint, GF(2)-span sufficient / exactly k) is evaluated by TLC on every answer of the real planner for every within-tolerance case of every XOR table and on the transcription.",
         "TLC; sufficiency is decided algebraically (span), not by re-running reconstruct."),
 "C07": (MC, "5/C07", "TLC trace validation: every byte of every fragment equals Wire!Fragment (independent serializer with bitwise CRC-32 and GF arithmetic); MC_Wire lemmas",
         "The wire format is a TLA+ function of (backend,k,m,hd,ct,data); recorded encode outputs are compared byte for byte for dense small lengths, header bytes + slice memcmp for large ones.",
         "TLC; harness bitwise CRC for large payloads; reference ISA-L plug-in for backends 4 and 7."),
 "C08": (MC, "5/C08", "TLC trace validation of the three size queries and encode's real fragment length against Sizes.tla; arithmetic lemmas model-checked",
         "Every length up to 4a+1 and seeded lengths to 2^20 per configuration.", "TLC."),
 "C09": (MC, "5/C09", "TLC trace validation of header verdicts (metadata query, header predicate, decode, reconstruct) on mutated headers against HeaderAccepted/HostOrder computed from the 80 bytes",
         "The acceptance predicate of the statement is the specification; every single-bit flip and families of edits/re-sealings are judged by the real code and by TLC.",
         "TLC with bitwise CRC-32 and its sign-extending variant; ASan/UBSan."),
 "C10": (MC, "5/C10", "TLC trace validation of stored payload checksums (writers, incl. legacy switch) and of mismatch reporting (readers) against bitwise CRC-32 / historical CRC-32",
         "Writers are compared byte for byte; readers on payload bit flips and checksum edits.", "TLC; ASan/UBSan."),
 "C11": (MC, "5/C11", "TLC trace validation of get_fragment_metadata on field-swapped twins against Wire!MetadataView",
         "Opposite-endian fragments are synthesised as such a writer would store them; a big-endian host cannot be run.", "TLC; synthesised twins."),
 "C12": (MC, "5/C12", "TLC trace validation of is_invalid_fragment / verify_stripe_metadata verdicts against Wire!FragmentInvalid / StripeFails over foreign and edited fragments",
         "The statement's list of reasons is the specification, evaluated from the bytes.", "TLC; ASan/UBSan."),
 "C13": (MC, "5/C13", "TLC model checking of the API state machine (failed calls change nothing) + TLC trace validation of argument-class histories and the create box recorded under ASan/UBSan with the allocation ledger",
         "Every entry point x every argument class of DESIGN Appendix B is executed on the real library; TLC decides the refusal class from the Libec model and checks that nothing stays allocated; crashes are Fault events.",
         "TLC; ASan/UBSan and the ledger as monitors; only the class rc < 0 is demanded, not the code."),
 "C14": (MC, "5/C14", "TLC model checking of the registry (descriptor allocation with wrap, complete state graph) + replay of every transition into the real library + TLC trace validation with MaxInt = INT_MAX",
         "The allocation rule is transcribed with two's-complement wrap; the tiny counter range makes every wrap/collision configuration reachable in the model; the real registry is driven into the same configurations by presetting next_backend_desc; every event is validated (positive, distinct from the live ones, dead after destroy, failed create leaves nothing, registry projection, isolation round trips; the exact number and the GF-table timing are reported as model drift only). The wrap and collision histories also run on a gcc -O2 build with the hooks compiled out (production configuration), and the same histories are executed from three threads in strict alternation.",
         "TLC; the projection uses the exported lookup and, when present, the exported counter (looked up by name)."),
 "C16": (MC, "5/C16", "TLC model checking of the ownership model + TLC trace validation of the relative ledger rules R1-R6 on replayed behaviours and random histories",
         "Leaks, double frees and frees of caller memory are made observable by an allocation ledger compiled into the library build and by ASan; the specification states which call owes what.",
         "TLC; allocation ledger (-D redirected allocator); ASan."),
 "C17": ("fault_enumeration", "5/C17", "fault enumeration over (backend, operation, n-th call, variant) and replay of every failing-operation transition of the TLC-checked API model (MC_Libec WithFaults, property FaultIsError), with TLC trace validation of every run against Libec + ledger rules",
         "Each backend operation is made to fail at each position of a scripted workload; the recorded history must satisfy: error returned, delta 0, nothing owed, registry unchanged, continuation succeeds.",
         "TLC; failing stubs installed through the backend's exported operation table; reference ISA-L plug-in's inversion-failure knob."),
 "C15": (MC, "5/C15", "TLC trace validation of decode/reconstruct/metadata/validation/encode runs whose inputs sit on read-only pages ending at a guard page, and of encode digests across histories (TracePure)",
         "Stray writes and over-reads become Fault events through page protection; history independence is a TLC state variable seen[(configuration,data)] compared over a fresh process, random API histories, other live instances, injected failures and a second thread.",
         "TLC; mprotect/PROT_NONE as the monitor for stray accesses; FNV digest of all fragment bytes (full bytes are compared in C07 for small inputs)."),
 "C18": (MC, "5/C18", "TLC model checking of all interleavings of the registry/GF-table protocol (NoRace, NoBad, UniqueDesc) + replay of TLC-generated schedules on real threads through guarded yield hooks + TLC validation of lock-annotated traces + ThreadSanitizer stress",
         "The protocol model is explored exhaustively; every transition of its state graph yields a schedule that is replayed step by step on real threads parked at the yield points, and in every recorded schedule (controlled and free-running) each hooked step must be performed with the lock that protects what it touches and no two live instances may share a descriptor (judged per event); where the code no longer has the model's step structure that is reported as drift, not as a violation; TSan observes what lies below the yield granularity (own instances of six shapes, shared descriptors, random tolerated erasure sets).",
         "TLC; yield hooks guarded by LIBERASURECODE_VERIF; lock wrappers by -D redirection; ThreadSanitizer/ASan."),
 "C19": (MC, "5/C19", "TLC model checking of the transcribed ISA-L adapter row synthesis for both generators + TLC trace validation of decode/reconstruct/fragments-needed runs over a clean-room reference plug-in, with GF(2^8) invertibility decided per event",
         "Exactness for invertible survivor sets is an invariant of the transcription; refusals of the real adapter are accepted only where TLC finds the survivor matrix singular; the reference plug-in is itself compared byte for byte with IsaL.tla.",
         "TLC; verif-owned reference libisal.so.2 implementing the five documented primitives."),
 "C20": (MC, "5/C20", "TLC trace validation of forced-check decodes over every absent/intact/damaged assignment of small stripes",
         "rc=0 => original bytes; valid fragments alone within tolerance => success.", "TLC; driver memcmp; ASan/UBSan."),
}

def main():
    verif = os.path.dirname(os.path.dirname(os.path.abspath(__file__)))
    hooks = []
    hp = os.path.join(verif, "hooks_commits.txt")
    if os.path.exists(hp):
        hooks = [l.split()[0] for l in open(hp) if l.strip()]
    checks, na = [], []
    for i in range(1, 21):
        pid = "C%02d" % i
        if pid in registry.CHECKS and pid in P:
            cat, ref, tech, text, note = P[pid]
            checks.append({"property_id": pid, "quick_cmd": "bin/check %s --tier quick" % pid,
                           "thorough_cmd": "bin/check %s --tier thorough" % pid,
                           "evidence_file": "evidence/%s.json" % pid,
                           "replay_cmd_template": "bin/check %s --replay {path}" % pid,
                           "engine": "tlc+ecdrive",
                           "level_claimed": {"category": cat, "text": text, "design_ref": "DESIGN.md section " + ref},
                           "level_note": note, "technique": tech})
        else:
            na.append({"property_id": pid, "reason": "check not built yet (implementation in progress, see DESIGN.md section 12)"})
    m = {"version": 1,
         "setup_cmd": "python3 tools/setup.py",
         "hooks": {"guard": "LIBERASURECODE_VERIF",
                   "enable": "checks compile /repo's sources directly with clang and -DLIBERASURECODE_VERIF into /verif/.build/<variant>-<hash>/ (lib/vf/core.py build())",
                   "baseline_off_cmd": "cd /repo && make -j8 >/dev/null 2>&1; make test",
                   "source_commits": hooks, "add_only": True},
         "engines": [{"name": "tlc+ecdrive", "path": "bin/check", "serves_properties": [c["property_id"] for c in checks],
                      "kind_free_text": "TLA+ specification in spec/ checked with TLC (model checking + trace validation); C driver harness/ecdrive.c replays generated cases into the library built from /repo and records ndjson traces"}],
         "checks": checks, "not_applicable": na,
         "notes": "All checks rebuild /repo's working tree (content-hash cache). Known findings: known_findings.json."}
    json.dump(m, open(os.path.join(verif, "MANIFEST.json"), "w"), indent=1)
    print("checks:", len(checks), "not_applicable:", len(na))

main()
