#!/bin/bash
# try_seed.sh <patch.diff> <check ids...> : apply a seeded change to /repo, run the given quick checks, undo.
patch=$1; shift
cd /repo || exit 2
if ! git diff --quiet; then echo "/repo has local modifications"; exit 2; fi
git apply "$patch" || { echo "patch does not apply"; exit 2; }
cd /verif
for c in "$@"; do
  s=$(date +%s)
  bin/check $c --tier quick > /tmp/try_$c.out 2>&1; rc=$?
  e=$(date +%s)
  echo "$c rc=$rc wall=$((e-s))s violations=$(grep -c '^VIOLATION' /tmp/try_$c.out) first=$(grep -A1 '^VIOLATION' /tmp/try_$c.out | sed -n 2p | cut -c1-220)"
done
git -C /repo checkout -- .
git -C /verif checkout -- evidence 2>/dev/null
