#!/bin/bash
# mk_scratch.sh <dir> : scratch git worktree of /repo (HEAD) that can be configured and built offline
set -e
d=$1
git -C /repo worktree add -q --detach "$d" HEAD
cd /repo
# autotools-generated (untracked, path independent) files
for f in configure aclocal.m4 compile config.guess config.sub depcomp install-sh ltmain.sh missing \
         include/config.h.in include/config_liberasurecode.h.in $(find . -name Makefile.in -not -path "./.git/*"); do
  [ -e "$f" ] && cp -p "$f" "$d/$f"
done
[ -d m4 ] && cp -rp m4/. "$d/m4/" 2>/dev/null || true
cd "$d"
./configure --quiet > configure.log 2>&1 || { tail -5 configure.log; exit 1; }
echo "scratch worktree ready: $d"
