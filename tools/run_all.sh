#!/bin/bash
# run every quick check sequentially; print rc and wall time per property
cd "$(dirname "$0")/.."
tier=${1:-quick}
for i in $(seq -w 1 20); do
  p=C$i
  s=$(date +%s)
  bin/check $p --tier $tier > /tmp/all_$p.out 2>&1
  rc=$?
  e=$(date +%s)
  echo "$p rc=$rc wall=$((e-s))s viol=$(grep -c '^VIOLATION' /tmp/all_$p.out)"
done
