#!/usr/bin/env python3
"""setup_cmd: verify the pre-installed tools are present; build the harness variants once (cached). Fetches nothing."""
import os, shutil, sys
sys.path.insert(0, os.path.join(os.path.dirname(os.path.dirname(os.path.abspath(__file__))), "lib"))
missing = [t for t in ("java", "clang", "timeout") if not shutil.which(t)]
if missing or not os.path.exists("/opt/veriftools/tla/tla2tools.jar"):
    print("missing tools:", missing); sys.exit(1)
from vf import core
for v in ("asan", "plain"):
    core.build(v)
print("setup ok")
