#!/bin/bash
# try_seed_wt.sh <worktree with the change applied> <check ids...> : run quick checks against a scratch worktree (VERIF_REPO)
wt=$1; shift
cd /verif
for c in "$@"; do
  s=$(date +%s)
  VERIF_REPO=$wt bin/check $c --tier quick > /tmp/try_$c.out 2>&1; rc=$?
  e=$(date +%s)
  echo "$c rc=$rc wall=$((e-s))s violations=$(grep -c '^VIOLATION' /tmp/try_$c.out) first=$(grep -A1 '^VIOLATION' /tmp/try_$c.out | sed -n 2p | cut -c1-260)"
done
git -C /verif checkout -- evidence 2>/dev/null
