#!/bin/bash
# verify_seed.sh <dir> : confirm a seeded change in scratch worktree <dir> (out/patch.diff, out/run_demo.sh):
#  suite passes with the change, demo fails with it, demo passes without it.  Prints a JSON summary.
d=$1
cd "$d" || exit 2
git diff -- src include > /tmp/vs_cur.diff
applied=1
if ! diff -q <(grep '^[-+]' /tmp/vs_cur.diff | grep -v '^[-+][-+]') <(grep '^[-+]' out/patch.diff | grep -v '^[-+][-+]') >/dev/null; then applied=0; fi
make -j8 > /tmp/vs_make.log 2>&1; mk=$?
make test > /tmp/vs_test.log 2>&1; t1=$?
ok1=$(grep -c ' \.\.\. ok$' /tmp/vs_test.log)
bash out/run_demo.sh > /tmp/vs_demo1.log 2>&1; d1=$?
git apply -R out/patch.diff
make -j8 > /tmp/vs_make2.log 2>&1
bash out/run_demo.sh > /tmp/vs_demo2.log 2>&1; d2=$?
git apply out/patch.diff
make -j8 > /tmp/vs_make3.log 2>&1
echo "{\"dir\":\"$d\",\"patch_matches_tree\":$applied,\"make_rc\":$mk,\"suite_rc_with_change\":$t1,\"suite_ok_lines\":$ok1,\"demo_rc_with_change\":$d1,\"demo_rc_without_change\":$d2}"
