------------------------------- MODULE MC_Wire -------------------------------
(* Lemmas about the wire format model itself, on a generated family of        *)
(* records: a serialised header has 80 bytes, zero padding, its fields read   *)
(* back, it is accepted, its field-swapped twin has the same logical view;    *)
(* size arithmetic: aligned >= len, divisible by k*word, minimal.             *)
EXTENDS Wire
VARIABLES be, k, idx, len, ct, legacy
vars == <<be, k, idx, len, ct, legacy>>
Init == /\ be \in {0, 3, 6, 7} /\ k \in {1, 10, 31} /\ idx \in {0, 31} /\ len \in {0, 59, 4097, 1048577}
        /\ ct \in {1, 2} /\ legacy \in BOOLEAN
Next == UNCHANGED vars
Size == FragSize(be, k, len)
Ck == <<43981, 4660>>
H == Header(be, idx, Size, len, ct, Ck, <<1, 1540>>, <<1, 0>>, legacy)
\* field-wise swap of a serialised header (what an opposite-endian writer stores), re-sealed
Rev(s) == [i \in 1..Len(s) |-> s[Len(s) + 1 - i]]
SwapHdr(h) ==
   LET f(off, n) == Rev(SubSeq(h, off + 1, off + n))
       meta == f(0,4) \o f(4,4) \o f(8,4) \o f(12,8) \o <<h[21]>> \o f(21,4) \o f(25,4) \o f(29,4) \o f(33,4) \o f(37,4)
               \o f(41,4) \o f(45,4) \o f(49,4) \o <<h[54], h[55]>> \o f(55,4)
   IN meta \o f(59,4) \o f(63,4) \o Rev(Ser32(Crc32(meta))) \o SubSeq(h, 72, 80)
InvHeader ==
   /\ Len(H) = HdrLen
   /\ SubSeq(H, OPad + 1, HdrLen) = Zeros(9)
   /\ LE32(H, OIdx) = <<0, idx>> /\ LE32(H, OMagic) = Magic /\ H[OCt+1] = ct /\ H[OBeId+1] = be
   /\ HostOrder(H) /\ HeaderAccepted(H)
   /\ FieldsView(H).orig = <<0, 0, len \div 65536, len % 65536>>
InvTwin ==
   LET T == SwapHdr(H) IN
   /\ ~HostOrder(T) /\ HeaderAccepted(T)
   /\ FieldsView(T) = FieldsView(H)
   /\ (Size <= 64 => MetadataView(T, Zeros(Size)) = MetadataView(H, Zeros(Size)))
   /\ FieldsView(T).ct = ct /\ FieldsView(T).ck = Ck
InvCorrupt == \A pos \in {0, 20, 58} : ~HeaderAccepted([H EXCEPT ![pos+1] = (H[pos+1] + 1) % 256])
InvSizes == LET a == AlignMultiple(be, k) al == Aligned(be, k, len) IN
   /\ al >= len /\ al % a = 0 /\ al - len < a /\ Size * k = al /\ MinEncode(be, k) = a
=============================================================================
