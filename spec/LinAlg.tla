------------------------------ MODULE LinAlg ------------------------------
(* Gaussian elimination over a field of characteristic 2 given by operators.  *)
(* Matrices are functions [1..n -> [1..n -> Int]]; addition is XOR.           *)
EXTENDS Integers, Sequences, SequencesExt, FiniteSets, FiniteSetsExt, Bitwise, TLC

Ident(n) == [i \in 1..n |-> [j \in 1..n |-> IF i = j THEN 1 ELSE 0]]

\* Gauss-Jordan on the pair (M, I): returns [ok, M (reduced), V (inverse if ok)]
GaussJordan(M0, n, Mul(_,_), Inv(_)) ==
   LET step(acc, c) ==
         IF ~acc.ok THEN acc ELSE
         LET M == acc.M  V == acc.V
             rows == {r \in c..n : M[r][c] # 0}
         IN IF rows = {} THEN [acc EXCEPT !.ok = FALSE] ELSE
            LET p == Min(rows)
                M1 == [M EXCEPT ![c] = M[p], ![p] = M[c]]
                V1 == [V EXCEPT ![c] = V[p], ![p] = V[c]]
                pinv == Inv(M1[c][c])
                Mc == [j \in 1..n |-> Mul(M1[c][j], pinv)]
                Vc == [j \in 1..n |-> Mul(V1[c][j], pinv)]
                M2 == [r \in 1..n |-> IF r = c THEN Mc ELSE
                         LET f == M1[r][c] IN IF f = 0 THEN M1[r] ELSE [j \in 1..n |-> M1[r][j] ^^ Mul(f, Mc[j])]]
                V2 == [r \in 1..n |-> IF r = c THEN Vc ELSE
                         LET f == M1[r][c] IN IF f = 0 THEN V1[r] ELSE [j \in 1..n |-> V1[r][j] ^^ Mul(f, Vc[j])]]
            IN TLCEval([ok |-> TRUE, M |-> M2, V |-> V2])
   IN FoldLeft(step, [ok |-> TRUE, M |-> M0, V |-> Ident(n)], [i \in 1..n |-> i])

Invertible(M, n, Mul(_,_), Inv(_)) == GaussJordan(M, n, Mul, Inv).ok
MatInverse(M, n, Mul(_,_), Inv(_)) == GaussJordan(M, n, Mul, Inv).V

\* row vector times matrix; matrix product (n x n)
DotXor(row, col, n, Mul(_,_)) == FoldLeft(LAMBDA a, j : a ^^ Mul(row[j], col[j]), 0, [j \in 1..n |-> j])
MatMul(A, B, n, Mul(_,_)) == [i \in 1..n |-> [j \in 1..n |-> DotXor(A[i], [x \in 1..n |-> B[x][j]], n, Mul)]]
=============================================================================
