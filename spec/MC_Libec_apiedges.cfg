CONSTANTS MaxInt = 5
 MinInt <- MinIntModel
 Slots = {1, 2}
 MaxDepth = 6
 WithApi = TRUE
 EmitPaths = TRUE
SPECIFICATION Spec
VIEW view
ACTION_CONSTRAINT Emit
INVARIANTS InvDesc InvOwed
PROPERTIES FailedCallChangesNothing FreshDesc
CHECK_DEADLOCK FALSE
