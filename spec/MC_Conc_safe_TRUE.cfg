CONSTANTS Threads = {1, 2}
 SharedUsers = {3}
 Nodes = {1, 2}
 Pre = TRUE
 Safe <- TT
SPECIFICATION HSpec
VIEW hview
INVARIANTS NoBad UniqueDesc NoRace
CHECK_DEADLOCK FALSE
