CONSTANTS MaxE = 99
 Collect = TRUE
INIT Init
NEXT Next
INVARIANTS InvNoSilent
CHECK_DEADLOCK FALSE
