-------------------------------- MODULE Wire --------------------------------
(* The fragment wire format (C07) and the acceptance / validation predicates  *)
(* over header bytes (C09-C12).  A header is a sequence of 80 bytes (ints);   *)
(* offsets are the golden on-disk layout, independent of the C struct.        *)
EXTENDS CRC32, Sizes, XorCode, RSVand, IsaL

OIdx == 0  OSize == 4  OBms == 8  OOrig == 12  OCt == 20  OCk == 21  OMis == 53  OBeId == 54
OBeVer == 55  OMagic == 59  OLibVer == 63  OMetaCrc == 67  OPad == 71
HdrLen == 80  MetaLen == 59
Magic == <<2828, 24268>>            \* 0x0b0c5ecc
V120 == <<1, 512>>                  \* _VERSION(1,2,0)

\* ---- little-endian (de)serialisation ----
Ser32(w) == << w[2] % 256, w[2] \div 256, w[1] % 256, w[1] \div 256 >>
SerInt32(x) == Ser32(<< x \div 65536, x % 65536 >>)           \* 0 <= x < 2^31
LE32(s, off) == << s[off+3] + 256 * s[off+4], s[off+1] + 256 * s[off+2] >>      \* off is a 0-based byte offset
BE32(s, off) == << s[off+2] + 256 * s[off+1], s[off+4] + 256 * s[off+3] >>      \* same four bytes read big-endian
Swap32(w) == << (w[2] % 256) * 256 + (w[2] \div 256), (w[1] % 256) * 256 + (w[1] \div 256) >>
Less(a, b) == a[1] < b[1] \/ (a[1] = b[1] /\ a[2] < b[2])
Zeros(n) == [i \in 1..n |-> 0]

\* ---- what encode writes (C07) ----
Header(be, idx, size, origlen, ct, ck, libver, bever, legacy) ==
   LET meta == SerInt32(idx) \o SerInt32(size) \o SerInt32(0) \o SerInt32(origlen) \o SerInt32(0)
               \o <<ct>> \o Ser32(ck) \o Zeros(28) \o <<0>> \o <<be>> \o Ser32(bever)
       mcrc == IF legacy THEN Crc32Alt(meta) ELSE Crc32(meta)
   IN meta \o Ser32(Magic) \o Ser32(libver) \o Ser32(mcrc) \o Zeros(9)

\* payloads: data slice zero padded; parity per backend
DataSlice(data, i, bs) == [q \in 1..bs |-> LET p == i * bs + q IN IF p <= Len(data) THEN data[p] ELSE 0]
XorBytes(a, b) == [q \in 1..Len(a) |-> a[q] ^^ b[q]]
XorParity(t, slices, j, bs) ==
   FoldLeft(LAMBDA acc, i : IF HasBit(t.pbm[j+1], i) THEN XorBytes(acc, slices[i+1]) ELSE acc, Zeros(bs), [i \in 1..t.k |-> i-1])
\* RS: host-order (little-endian) 16-bit words
WordsOf(bytes) == [q \in 1..(Len(bytes) \div 2) |-> bytes[2*q-1] + 256 * bytes[2*q]]
BytesOf(words) == [q \in 1..(2 * Len(words)) |-> IF q % 2 = 1 THEN words[(q+1) \div 2] % 256 ELSE words[q \div 2] \div 256]
RsParity(k, slices, r, bs) ==
   LET ws == [i \in 1..k |-> WordsOf(slices[i])]
       coef == TLCEval([j \in 1..k |-> Coef(k, r, j-1)])
   IN BytesOf([q \in 1..(bs \div 2) |-> FoldLeft(LAMBDA a, j : a ^^ GfMul(coef[j], ws[j][q]), 0, [j \in 1..k |-> j])])
IsaParity(be, k, slices, r, bs) ==
   LET row == TLCEval(IsaGenRow(be, k, r)) IN
   [q \in 1..bs |-> FoldLeft(LAMBDA a, j : a ^^ G8Mul(row[j], slices[j][q]), 0, [j \in 1..k |-> j])]
Payload(be, k, m, hd, data, i, bs) ==
   LET slices == TLCEval([x \in 1..k |-> DataSlice(data, x-1, bs)]) IN
   IF i < k THEN slices[i+1]
   ELSE CASE be = 3 -> XorParity(TableOf(k, m, hd), slices, i - k, bs)
          [] be = 6 -> RsParity(k, slices, i, bs)
          [] be \in {4, 7} -> IsaParity(be, k, slices, i, bs)
          [] OTHER -> Zeros(bs)            \* null backend computes nothing
PayCrc(ct, pay, legacy) == IF ct # 2 THEN <<0, 0>> ELSE IF legacy THEN Crc32Alt(pay) ELSE Crc32(pay)
Fragment(be, k, m, hd, ct, data, i, libver, bever, legacy) ==
   LET bs == FragSize(be, k, Len(data))
       pay == TLCEval(Payload(be, k, m, hd, data, i, bs))
   IN Header(be, i, bs, Len(data), ct, PayCrc(ct, pay, legacy), libver, bever, legacy) \o pay

\* ---- header acceptance (C09) ----
HostOrder(h) == LE32(h, OMagic) = Magic
SwappedOrder(h) == BE32(h, OMagic) = Magic /\ ~HostOrder(h)
\* the writer's library version and stored metadata checksum, as the reader must interpret them
LibVerOf(h) == IF HostOrder(h) THEN LE32(h, OLibVer) ELSE BE32(h, OLibVer)
MetaCrcOf(h) == IF HostOrder(h) THEN LE32(h, OMetaCrc) ELSE BE32(h, OMetaCrc)
HeaderAccepted(h) ==
   /\ LE32(h, OLibVer) # <<0, 0>>
   /\ (HostOrder(h) \/ SwappedOrder(h))
   /\ (Less(LibVerOf(h), V120) \/ MetaCrcOf(h) = Crc32(SubSeq(h, 1, MetaLen)) \/ MetaCrcOf(h) = Crc32Alt(SubSeq(h, 1, MetaLen)))

\* ---- logical metadata of a fragment in either byte order (C10, C11) ----
F32(h, off) == IF HostOrder(h) THEN LE32(h, off) ELSE BE32(h, off)
F64(h, off) == IF HostOrder(h) THEN << LE32(h, off+4)[1], LE32(h, off+4)[2], LE32(h, off)[1], LE32(h, off)[2] >>
               ELSE << BE32(h, off)[1], BE32(h, off)[2], BE32(h, off+4)[1], BE32(h, off+4)[2] >>
AsInt(w) == w[1] * 65536 + w[2]       \* only for values known to be small
PayMismatch(h, pay) ==
   LET sz == F32(h, OSize)
       p == SubSeq(pay, 1, AsInt(sz))
       stored == F32(h, OCk)
   IN stored # Crc32(p) /\ stored # Crc32Alt(p)
FieldsView(h) ==
   [idx |-> F32(h, OIdx), size |-> F32(h, OSize), bms |-> F32(h, OBms), orig |-> F64(h, OOrig), ct |-> h[OCt+1],
    ck |-> F32(h, OCk), beid |-> h[OBeId+1], bever |-> F32(h, OBeVer)]
\* all eight checksum words
CksView(h) == [i \in 1..8 |-> F32(h, OCk + 4 * (i - 1))]
MetadataView(h, pay) ==
   [idx |-> F32(h, OIdx), size |-> F32(h, OSize), bms |-> F32(h, OBms), orig |-> F64(h, OOrig), ct |-> h[OCt+1],
    ck |-> F32(h, OCk), beid |-> h[OBeId+1], bever |-> F32(h, OBeVer),
    mis |-> IF h[OCt+1] = 2 THEN (IF PayMismatch(h, pay) THEN 1 ELSE 0) ELSE h[OMis+1]]

\* ---- per-fragment validation against an instance (C12) ----
\* inst = [be, k, m, bever (the backend's own version), libver (running library)]
BackendAccepts(be, ver, own) == be = 0 \/ ver = own
IdxInRange(w, n) == w[1] = 0 /\ w[2] < n
FragmentInvalid(inst, h, pay) ==
   \/ ~HeaderAccepted(h) \/ ~HostOrder(h)
   \/ Less(inst.libver, LE32(h, OLibVer))
   \/ ~IdxInRange(LE32(h, OIdx), inst.k + inst.m)
   \/ h[OBeId+1] # inst.be
   \/ ~BackendAccepts(inst.be, LE32(h, OBeVer), inst.bever)
   \/ (h[OCt+1] = 2 /\ PayMismatch(h, pay))
\* a set mismatch flag with a non-CRC32 checksum type: the statement does not say; either verdict is accepted
FragmentInvalidDontCare(inst, h) == HeaderAccepted(h) /\ HostOrder(h) /\ h[OCt+1] # 2 /\ h[OMis+1] # 0

\* ---- stripe metadata verification (C12): raw header fields, first failing fragment decides ----
StripeFails(inst, h) ==
   \/ ~IdxInRange(LE32(h, OIdx), inst.k + inst.m)
   \/ h[OBeId+1] # inst.be
   \/ ~BackendAccepts(inst.be, LE32(h, OBeVer), inst.bever)
   \/ h[OMis+1] = 1
StripeDontCare(h) == h[OMis+1] > 1
=============================================================================
