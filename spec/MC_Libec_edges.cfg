CONSTANTS MaxInt = 5
 MinInt <- MinIntModel
 Slots = {1, 2, 3}
 MaxDepth = 8
 WithApi = FALSE
 EmitPaths = TRUE
 WithFaults = FALSE
SPECIFICATION Spec
VIEW view
ACTION_CONSTRAINT Emit
INVARIANTS InvDesc InvOwed
PROPERTIES FailedCallChangesNothing FreshDesc FaultIsError
CHECK_DEADLOCK FALSE
