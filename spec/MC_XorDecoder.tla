--------------------------- MODULE MC_XorDecoder ---------------------------
(* Exhaustive walk of the erasure lattice of every flat-XOR table.  The       *)
(* erasure set is state: Init picks a table with E = {}, Erase(i) grows it,   *)
(* so every invariant is evaluated at every lattice point up to MaxE.         *)
EXTENDS XorDecoder, Json
CONSTANTS MaxE,        \* largest erasure-set size explored (capped at the table.s m)
          Collect      \* TRUE: do not stop at violations of NoSilent, print them as cases
TT == TRUE
VARIABLES ti, E
vars == <<ti, E>>
Lim(t) == IF MaxE > t.m THEN t.m ELSE MaxE
Init == ti \in 1..Len(Tables) /\ E = {}
Next == /\ Cardinality(E) < Lim(Tables[ti])
        /\ \E i \in 0..(N(Tables[ti]) - 1) : i \notin E /\ E' = E \cup {i}
        /\ UNCHANGED ti
T == Tables[ti]
Res == Decode(T, MissList(T, E))

\* C05: minimum distance >= hd -- every set of fewer than hd erasures leaves rank k
InvDistance == WithinTolerance(T, E) => Recoverable(T, E)
\* C01/C05: within tolerance the decoder succeeds and every buffer is exact
InvTol == WithinTolerance(T, E) => LET r == Res IN (~r.ub /\ r.rc = 0 /\ Correct(T, r))
\* C03/C05: reconstruct of any index (missing or not) is exact within tolerance
InvRecon == WithinTolerance(T, E) =>
   \A d \in E : LET r == ReconstructOne(T, MissList(T, E), d) IN (~r.ub /\ r.rc = 0 /\ DestCorrect(T, r, d))
\* C02: for any erasure set the front end lets through (|E| <= m): exact or refused, never UB
SilentCase == LET r == Res IN r.ub \/ (r.rc = 0 /\ ~DataCorrect(T, r))
ReconSilent(d) == LET r == ReconstructOne(T, MissList(T, E), d) IN r.ub \/ (r.rc = 0 /\ ~DestCorrect(T, r, d))
Emit(kind, d) == PrintT(<<"CASE", ToJson([kind |-> kind, k |-> T.k, m |-> T.m, hd |-> T.hd,
                                             miss |-> MissList(T, E), dest |-> d])>>)
InvNoSilent ==
   /\ (SilentCase => (IF Collect THEN Emit("decode", -1) ELSE FALSE))
   /\ \A d \in E : (ReconSilent(d) => (IF Collect THEN Emit("recon", d) ELSE FALSE))
=============================================================================
