CONSTANTS MaxInt = 5
 MinInt <- MinIntModel
 Slots = {1, 2}
 MaxDepth = 6
 WithApi = TRUE
 EmitPaths = TRUE
 WithFaults = TRUE
SPECIFICATION Spec
VIEW view
ACTION_CONSTRAINT Emit
INVARIANTS InvDesc InvOwed
PROPERTIES FailedCallChangesNothing FreshDesc FaultIsError
CHECK_DEADLOCK FALSE
