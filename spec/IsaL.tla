-------------------------------- MODULE IsaL --------------------------------
(* The ISA-L erasure-code primitives as their documentation defines them, and *)
(* what src/backends/isa-l/isa_l_common.c builds from them.                   *)
EXTENDS GF8, LinAlg

\* gf_gen_rs_matrix(a, n, k): identity on top, row i >= k is (g^0, g^1, ..) with g = 2^(i-k)
RsRow(k, i) == LET g == G8Pow(2, i - k) IN
               LET step(acc, j) == Append(acc, G8Mul(acc[Len(acc)], g)) IN
               IF k = 1 THEN <<1>> ELSE FoldLeft(step, <<1>>, [j \in 1..(k-1) |-> j])
\* gf_gen_cauchy1_matrix: row i >= k, column j: 1 / (i xor j)
CauchyRow(k, i) == [j \in 1..k |-> G8Inv(i ^^ (j-1))]
UnitRow(k, i) == [j \in 1..k |-> IF j = i + 1 THEN 1 ELSE 0]
IsaGenRow(be, k, i) == IF i < k THEN UnitRow(k, i) ELSE IF be = 4 THEN RsRow(k, i) ELSE CauchyRow(k, i)

\* isa_l_get_decode_matrix: rows of the first k survivors
FirstK(k, n, missing) == SubSeq(SetToSortSeq((0..(n-1)) \ missing, <), 1, k)
DecodeMatrix(be, k, n, missing) == LET f == FirstK(k, n, missing) IN [r \in 1..k |-> IsaGenRow(be, k, f[r])]
SurvivorsInvertible(be, k, m, missing) ==
    /\ Cardinality((0..(k+m-1)) \ missing) >= k
    /\ Invertible(DecodeMatrix(be, k, k+m, missing), k, G8Mul, G8Inv)

\* ---- transcription of isa_l_common.c: get_inverse_rows / isa_l_decode / isa_l_reconstruct ----
G8Dot(row, col, n) == FoldLeft(LAMBDA a, j : a ^^ G8Mul(row[j], col[j]), 0, [j \in 1..n |-> j])
\* rows for the missing fragments, in the order the code emits them: missing data ascending, then missing parity
\* ascending; a parity row starts at zero, takes the encode coefficient of every available data element at the
\* position that element has among the first k survivors, and for every missing data element adds coefficient x
\* (the row already computed for that element)
IsaInverseRows(be, k, m, missing) ==
   LET n == k + m
       inv == MatInverse(DecodeMatrix(be, k, n, missing), k, G8Mul, G8Inv)
       md == SetToSortSeq(missing \cap (0..(k-1)), <)
       mp == SetToSortSeq(missing \cap (k..(n-1)), <)
       dataRows == [q \in 1..Len(md) |-> inv[md[q] + 1]]
       parityRow(i) ==
          LET enc == IsaGenRow(be, k, i)
              step(acc, j) ==        \* acc = [row, avail, unavail]
                 IF j \notin missing
                 THEN [row |-> [acc.row EXCEPT ![acc.avail + 1] = @ ^^ enc[j + 1]], avail |-> acc.avail + 1, unavail |-> acc.unavail]
                 ELSE [row |-> [c \in 1..k |-> acc.row[c] ^^ G8Mul(enc[j + 1], dataRows[acc.unavail + 1][c])],
                       avail |-> acc.avail, unavail |-> acc.unavail + 1]
          IN FoldLeft(step, [row |-> [c \in 1..k |-> 0], avail |-> 0, unavail |-> 0], [j \in 1..k |-> j - 1]).row
   IN dataRows \o [q \in 1..Len(mp) |-> parityRow(mp[q])]
IsaMissingOrder(k, m, missing) == SetToSortSeq(missing \cap (0..(k-1)), <) \o SetToSortSeq(missing \cap (k..(k+m-1)), <)
\* applying a row to the first k survivors gives this combination of the data symbols
IsaApplied(be, k, m, missing, row) ==
   LET D == DecodeMatrix(be, k, k + m, missing)
   IN [c \in 1..k |-> FoldLeft(LAMBDA a, j : a ^^ G8Mul(row[j], D[j][c]), 0, [j \in 1..k |-> j])]
\* the adapter's decode is exact for this erasure set (every rebuilt fragment is its generator row)
IsaDecodeExact(be, k, m, missing) ==
   LET rows == IsaInverseRows(be, k, m, missing)
       ord == IsaMissingOrder(k, m, missing)
   IN \A q \in 1..Len(ord) : IsaApplied(be, k, m, missing, rows[q]) = IsaGenRow(be, k, ord[q])
=============================================================================
