-------------------------------- MODULE IsaL --------------------------------
(* The ISA-L erasure-code primitives as their documentation defines them, and *)
(* what src/backends/isa-l/isa_l_common.c builds from them.                   *)
EXTENDS GF8, LinAlg

\* gf_gen_rs_matrix(a, n, k): identity on top, row i >= k is (g^0, g^1, ..) with g = 2^(i-k)
RsRow(k, i) == LET g == G8Pow(2, i - k) IN
               LET step(acc, j) == Append(acc, G8Mul(acc[Len(acc)], g)) IN
               IF k = 1 THEN <<1>> ELSE FoldLeft(step, <<1>>, [j \in 1..(k-1) |-> j])
\* gf_gen_cauchy1_matrix: row i >= k, column j: 1 / (i xor j)
CauchyRow(k, i) == [j \in 1..k |-> G8Inv(i ^^ (j-1))]
UnitRow(k, i) == [j \in 1..k |-> IF j = i + 1 THEN 1 ELSE 0]
IsaGenRow(be, k, i) == IF i < k THEN UnitRow(k, i) ELSE IF be = 4 THEN RsRow(k, i) ELSE CauchyRow(k, i)

\* isa_l_get_decode_matrix: rows of the first k survivors
FirstK(k, n, missing) == SubSeq(SetToSortSeq((0..(n-1)) \ missing, <), 1, k)
DecodeMatrix(be, k, n, missing) == LET f == FirstK(k, n, missing) IN [r \in 1..k |-> IsaGenRow(be, k, f[r])]
SurvivorsInvertible(be, k, m, missing) ==
    /\ Cardinality((0..(k+m-1)) \ missing) >= k
    /\ Invertible(DecodeMatrix(be, k, k+m, missing), k, G8Mul, G8Inv)
=============================================================================
