------------------------------ MODULE TraceLibec ------------------------------
(* Trace validation of API histories recorded from the real library            *)
(* (harness/ecdrive_hist.inc) against the Libec state machine, with MaxInt the *)
(* real INT_MAX.  State: the Libec record st (registry, counter, owed          *)
(* outputs) plus the allocation-ledger bookkeeping of C16:                     *)
(*   base     live-block count at Reset (the constructor's baseline)           *)
(*   encD     stripe id -> blocks handed out by that encode                    *)
(*   decD     slot id   -> blocks handed out by that decode                    *)
(*   sync     FALSE after a Fault until the next Reset (the process state is   *)
(*            gone; the driver skips to the next history)                      *)
(* Rules R1-R5 of DESIGN section 5/C16 are all relative (deltas), so a         *)
(* refactoring that changes how many blocks an instance uses cannot alarm.     *)
EXTENDS Libec, CodeOracles, Sizes, Json, IOUtils

Tr == ndJsonDeserialize(IOEnv.TRACE)
MinIntReal == -2147483647 - 1
VARIABLES l, st, base, encD, decD, sync
vars == <<l, st, base, encD, decD, sync>>
Has(ev, f) == f \in DOMAIN ev
Bump(i) == TLCSet(i, TLCGet(i) + 1)
ASSUME \A i \in 1..16 : TLCSet(i, 0)

Delta(ev) == ev.l1 - ev.l0
Fired(ev) == Has(ev, "fired") /\ ev.fired = 1
AllocFailed(ev) == Has(ev, "afail") /\ ev.afail = 1
Cls(cls, rc, what) == IF Matches(cls, rc) THEN {} ELSE {what}
\* the caller replaced an entry of the backend's operation table (the repository's tests inject failures that way): no
\* result class is expected from such a call; what it may keep allocated is still checked
Stubbed(ev) == Has(ev, "stubbed") /\ ev.stubbed = 1
ClsU(ev, cls, rc, what) == IF Stubbed(ev) THEN {} ELSE Cls(cls, rc, what)
\* common ledger rules: a failing call keeps nothing (R1); the library never frees a caller buffer (R6)
Common(ev, prop) ==
     (IF ev.rc < 0 /\ Delta(ev) # 0 THEN {prop \o " failed call changed the live block count (kept or released memory)"} ELSE {})
\cup (IF ev.ff # 0 THEN {"C16 library freed a pointer it does not own"} ELSE {})
\cup (IF Fired(ev) /\ ~AllocFailed(ev) /\ ev.rc >= 0 THEN {"C17 backend operation failed but the public call reported success"} ELSE {})
\cup (IF Fired(ev) /\ ~AllocFailed(ev) /\ Delta(ev) # 0 THEN {"C17 failed backend operation left memory behind"} ELSE {})
\cup (IF AllocFailed(ev) /\ ev.rc < 0 /\ Delta(ev) # 0 THEN {"C16 call that failed for lack of memory kept or over-released memory"} ELSE {})
NoDelta(ev) == IF Delta(ev) # 0 THEN {"C16 call that hands nothing to the caller changed the live block count"} ELSE {}
Quiescent(s) == Live(s) = {} /\ s.owedE = {} /\ s.owedD = {}
\* R5: at a quiescent point the count is back at the baseline
AtRest(s, lnow) == IF Quiescent(s) /\ lnow # base THEN {"C16 live block count differs from the baseline although nothing is live or owed"} ELSE {}

CfgOf(ev) == [be |-> ev.be, k |-> ev.k, m |-> ev.m, hd |-> ev.hd, w |-> ev.w, ct |-> ev.ct, null |-> ev.nullargs = 1]
InstCfgOk(ev) == ev.ibe = ev.be /\ ev.ik = ev.k /\ ev.im = ev.m /\ ev.ihd = ev.hd /\ ev.ict = ev.ct

\* ---- per event: [v |-> violations, s |-> next Libec state, e |-> encD', d |-> decD'] ----
OnCreate(ev) ==
   LET c == CfgOf(ev)
       e == ExpectCreate(st, c, Fired(ev))
       s2 == CreateEffect(st, c, ev.rc)
   IN [v |-> Cls(e.cls, IF ev.rc > 0 THEN 0 ELSE -1, "C13 create: shape/argument class refused or accepted wrongly")
             \cup (IF ev.rc = 0 THEN {"C14 create returned descriptor 0"} ELSE {})
             \cup (IF ev.rc > 0 /\ ev.rc \in Live(st) THEN {"C14 create returned a descriptor that is live"} ELSE {})
             \cup (IF ev.rc > 0 /\ ~InstCfgOk(ev) THEN {"C14 new instance does not carry the requested configuration"} ELSE {})
             \cup (IF ev.rc > 0 /\ Delta(ev) <= 0 THEN {"C16 create allocated nothing"} ELSE {})
             \cup Common(ev, "C13"),
       s |-> s2, e |-> encD, d |-> decD]
OnDestroy(ev) ==
   LET cls == ExpectDestroy(st, ev.x)
       s2 == DestroyEffect(st, ev.x, ev.rc)
   IN [v |-> Cls(cls, ev.rc, "C14 destroy: live descriptor refused or dead descriptor accepted")
             \cup (IF ev.rc = 0 /\ Delta(ev) >= 0 THEN {"C16 destroy released nothing"} ELSE {})
             \cup Common(ev, "C14") \cup AtRest(s2, ev.l1),
       s |-> s2, e |-> encD, d |-> decD]
OnEncode(ev) ==
   LET cls == ExpectEncode(st, ev.x, ev.nullmask, Fired(ev))
       nullout == Has(ev, "nullout") /\ ev.nullout = 1
       s2 == EncodeEffect(st, ev.x, ev.T, IF nullout THEN -1 ELSE ev.rc)
   IN [v |-> ClsU(ev, cls, ev.rc, "C13 encode: argument class refused or accepted wrongly")
             \cup (IF nullout THEN {"C16 encode reported success without handing out its output arrays"} ELSE {})
             \cup (IF ev.rc = 0 /\ ~nullout /\ Delta(ev) <= 0 THEN {"C16 encode handed out nothing"} ELSE {})
             \cup Common(ev, "C13"),
       s |-> s2, e |-> IF ev.rc = 0 /\ ~nullout THEN [t \in DOMAIN encD \cup {ev.T} |-> IF t = ev.T THEN Delta(ev) ELSE encD[t]] ELSE encD, d |-> decD]
OnEncClean(ev) ==
   LET cls == ExpectEncClean(st, ev.x)
       released == ev.had \in {1, 2} /\ ev.nullmask = 0     \* 2: the caller had released part of it itself before
       s2 == EncCleanEffect(st, ev.x, ev.T, ev.rc, released)
   IN [v |-> Cls(cls, ev.rc, "C13 encode_cleanup: descriptor class")
             \cup (IF ev.rc = 0 /\ released /\ ev.had = 1 /\ ev.T \in DOMAIN encD /\ Delta(ev) # 0 - encD[ev.T]
                   THEN {"C16 encode_cleanup did not release exactly what encode handed out"} ELSE {})
             \cup (IF ev.rc = 0 /\ ~released /\ Delta(ev) # 0 THEN {"C16 encode_cleanup of nothing changed the live block count"} ELSE {})
             \cup Common(ev, "C13") \cup AtRest(s2, ev.l1),
       s |-> s2, e |-> encD, d |-> decD]
SameCfg(ev) == ev.ibe >= 0 /\ ev.ibe = ev.be /\ ev.ik = ev.k /\ ev.im = ev.m /\ ev.ihd = ev.hd
EffIdx(ev) == IF ev.nfrag <= 0 THEN <<>> ELSE IF ev.nfrag <= Len(ev.idx) THEN SubSeq(ev.idx, 1, ev.nfrag) ELSE ev.idx
MissingIn(ev) == (0..(ev.k + ev.m - 1)) \ {EffIdx(ev)[i] : i \in 1..Len(EffIdx(ev))}
\* the null backend is a stub that reports success without computing anything: with a data fragment missing its
\* "decode" cannot return the data, by design (DESIGN Appendix E, 21 and 26)
NullStub(ev) == ev.be = 0 /\ MissingIn(ev) \cap (0..(ev.k - 1)) # {}
OnDecode(ev) ==
   LET tol == TolBy(ev.be, ev.k, ev.m, ev.hd, MissingIn(ev))
       cls == ExpectDecode(st, ev.x, ev.nullmask, ev.flc, ev.nfrag, ev.nfrag, SameCfg(ev), tol, Fired(ev))
       excused == ev.rc < 0 /\ ExcusedBy(ev.be, ev.k, ev.m, MissingIn(ev))
       s2 == DecodeEffect(st, ev.x, ev.U, ev.rc)
   IN [v |-> (IF excused THEN {} ELSE ClsU(ev, cls, ev.rc, "C13/C01 decode: argument class or tolerated erasure set judged wrongly"))
             \cup (IF ev.rc = 0 /\ SameCfg(ev) /\ ~NullStub(ev) /\ ev.match # 1 THEN {"C02 success with wrong bytes"} ELSE {})
             \cup (IF ev.rc = 0 /\ Delta(ev) <= 0 THEN {"C16 decode handed out nothing"} ELSE {})
             \cup Common(ev, "C13"),
       s |-> s2, e |-> encD, d |-> IF ev.rc = 0 THEN [u \in DOMAIN decD \cup {ev.U} |-> IF u = ev.U THEN Delta(ev) ELSE decD[u]] ELSE decD]
OnDecClean(ev) ==
   LET cls == ExpectDecClean(st, ev.x)
       released == ev.had = 1 /\ ev.nullmask = 0
       s2 == DecCleanEffect(st, ev.x, ev.U, ev.rc, released)
   IN [v |-> Cls(cls, ev.rc, "C13 decode_cleanup: descriptor class")
             \cup (IF ev.rc = 0 /\ released /\ ev.U \in DOMAIN decD /\ Delta(ev) # 0 - decD[ev.U]
                   THEN {"C16 decode_cleanup did not release exactly what decode handed out"} ELSE {})
             \cup Common(ev, "C13") \cup AtRest(s2, ev.l1),
       s |-> s2, e |-> encD, d |-> decD]
OnRecon(ev) ==
   LET tol == TolBy(ev.be, ev.k, ev.m, ev.hd, MissingIn(ev))
       cls == ExpectRecon(st, ev.x, ev.nullmask, ev.flc, ev.U, ev.nfrag, ev.nfrag, SameCfg(ev), tol, Fired(ev))
       excused == ev.rc < 0 /\ ExcusedBy(ev.be, ev.k, ev.m, MissingIn(ev))
   IN [v |-> (IF excused THEN {} ELSE ClsU(ev, cls, ev.rc, "C13/C03 reconstruct: argument class or tolerated erasure set judged wrongly"))
             \cup (IF ev.rc = 0 /\ SameCfg(ev) /\ ~NullStub(ev) /\ (IF Has(ev, "samep") /\ ev.ict # ev.ct THEN ev.samep # 1 ELSE ev.same # 1)
                   THEN {"C02 reconstruct success with wrong bytes"} ELSE {})
             \cup Common(ev, "C13") \cup NoDelta(ev),
       s |-> st, e |-> encD, d |-> decD]
\* C06 on histories: for a live instance and well-formed index lists the answer is a usable, sufficient list, and within
\* the tolerance the query succeeds
NeededRule(ev) ==
   IF ev.x \notin Live(st) \/ ev.nullmask # 0 \/ Fired(ev) \/ Stubbed(ev) \/ ~Has(ev, "R") \/ ~Has(ev, "X") THEN {}
   ELSE LET c == st.live[ev.x]  R == ev.R  X == ev.X
            both == Range(R) \cup Range(X)
            wellformed == NoDup(R \o X) /\ both \subseteq 0..(c.k + c.m - 1) /\ Len(R) > 0
            known == (c.be = 3 /\ HasTable(c.k, c.m, c.hd)) \/ c.be \in {4, 6, 7}
        IN IF ~wellformed \/ ~known THEN {}
           ELSE (IF ev.rc >= 0 /\ Has(ev, "N") /\ ~(IF c.be = 3 THEN NeededOK(TableOf(c.k, c.m, c.hd), R, X, ev.N) ELSE RsNeededOKBy(c.k, c.m, R, X, ev.N))
                 THEN {"C06 wrong list returned"} ELSE {})
           \cup (IF TolBy(c.be, c.k, c.m, c.hd, both) /\ ev.rc < 0 THEN {"C06 refused within tolerance"} ELSE {})
OnNeeded(ev) ==
   LET cls == ExpectSimple(st, ev.x, ev.nullmask, Fired(ev))
   IN [v |-> ClsU(ev, cls, ev.rc, "C13 fragments_needed: argument class") \cup Common(ev, "C13") \cup NoDelta(ev) \cup NeededRule(ev),
       s |-> st, e |-> encD, d |-> decD]
OnMeta(ev) ==
   [v |-> Cls(IF ev.nullmask # 0 THEN "neg" ELSE "ok", ev.rc, "C13 get_fragment_metadata: argument class") \cup Common(ev, "C13") \cup NoDelta(ev),
    s |-> st, e |-> encD, d |-> decD]
\* is_invalid_fragment: "refusal" is the documented return value 1
OnFinv(ev) ==
   LET mustInvalid == ev.x \notin Live(st) \/ ev.nullmask # 0
       mustValid == ~mustInvalid /\ ev.ibe = ev.be /\ (ev.i % (ev.k + ev.m)) < ev.ik + ev.im
   IN [v |-> (IF mustInvalid /\ ev.rc = 0 THEN {"C13 is_invalid_fragment accepted a dead descriptor or NULL fragment"} ELSE {})
             \cup (IF mustValid /\ ev.rc # 0 THEN {"C12 own fragment judged invalid"} ELSE {})
             \cup (IF ev.ff # 0 THEN {"C16 library freed a pointer it does not own"} ELSE {}) \cup NoDelta(ev),
       s |-> st, e |-> encD, d |-> decD]
OnVs(ev) ==
   LET cls == IF ev.x \notin Live(st) \/ ev.nullmask # 0 \/ ev.n <= 0 THEN "neg" ELSE "any"
   IN [v |-> Cls(cls, ev.rc, "C13 verify_stripe_metadata: argument class") \cup Common(ev, "C13") \cup NoDelta(ev),
       s |-> st, e |-> encD, d |-> decD]
OnSize(ev) ==
   [v |-> (IF ev.x \notin Live(st) /\ (ev.aligned >= 0 \/ ev.frag >= 0 \/ ev.min >= 0) THEN {"C08 size query on a dead descriptor must fail"} ELSE {})
          \cup (IF ev.x \in Live(st) /\ ~Has(ev, "ik") THEN {"C14 a live descriptor is not found by the registry lookup"} ELSE {})
          \cup (IF ev.x \in Live(st) /\ Has(ev, "ik") /\ ev.len < 100000000 /\
                   (ev.aligned # Aligned(ev.ibe, ev.ik, ev.len) \/ ev.frag # FragSize(ev.ibe, ev.ik, ev.len) \/ ev.min # MinEncode(ev.ibe, ev.ik))
                THEN {"C08 size queries of a live instance"} ELSE {})
          \cup (IF ev.ff # 0 THEN {"C16 library freed a pointer it does not own"} ELSE {}) \cup NoDelta(ev),
    s |-> st, e |-> encD, d |-> decD]
OnProj(ev) ==
   [v |-> (IF {ev.live[i] : i \in 1..Len(ev.live)} # Live(st) THEN {"C14 registry projection differs from the model (live descriptors)"} ELSE {})
          \cup AtRest(st, ev.l),
    s |-> st, e |-> encD, d |-> decD]
OnAvail(ev) ==
   [v |-> (IF ((ev.rc = 1) # (ev.x \in Executable)) /\ ev.x >= 0 /\ ev.x < BackendsMax THEN {"C13 backend_available"} ELSE {})
          \cup (IF (ev.x < 0 \/ ev.x >= BackendsMax) /\ ev.rc # 0 THEN {"C13 backend_available on an out-of-range id"} ELSE {}) \cup NoDelta(ev),
    s |-> st, e |-> encD, d |-> decD]

\* ---- implementation details the model follows but no property pins: reported as drift, never as a violation ----
\* (the numbering policy of descriptors, the value of the counter, when the shared GF tables exist)
GfDrift(ev, s2) == Has(ev, "gf") /\ ev.gf >= 0 /\ ((ev.gf = 1) # (GfRef(s2) > 0))
Drift(ev) ==
   CASE ev.e = "HCreate" ->
          LET c == CfgOf(ev)  e == ExpectCreate(st, c, Fired(ev))  s2 == CreateEffect(st, c, ev.rc) IN
             \/ (ev.rc > 0 /\ ev.rc # e.d) \/ (ev.rc > 0 /\ ev.next1 # ev.rc) \/ (ev.rc < 0 /\ ev.next1 # ev.next0)
             \/ ev.next0 # st.next \/ GfDrift(ev, s2)
     [] ev.e = "HDestroy" -> GfDrift(ev, DestroyEffect(st, ev.x, ev.rc))
     [] ev.e = "Proj" -> ev.next # st.next \/ GfDrift(ev, st)
     [] OTHER -> FALSE

\* a call of the repository's own tests whose inputs the recorder could not identify (harness/suiteshim.c): the ledger
\* rules only; a successful decode still hands out an output the caller owes back
OnAny(ev) ==
   LET dec == Has(ev, "dec") /\ ev.rc = 0 IN
   [v |-> (IF ev.ff # 0 THEN {"C16 library freed a pointer it does not own"} ELSE {})
          \cup (IF ev.rc < 0 /\ Delta(ev) > 0 THEN {"C16 failed call kept memory"} ELSE {}),
    s |-> IF dec THEN [st EXCEPT !.owedD = @ \cup {<<ev.x, ev.U>>}] ELSE st,
    e |-> encD,
    d |-> IF dec THEN [u \in DOMAIN decD \cup {ev.U} |-> IF u = ev.U THEN Delta(ev) ELSE decD[u]] ELSE decD]

Step(ev) ==
   CASE ev.e = "HCreate" -> OnCreate(ev)
     [] ev.e = "HAny" -> OnAny(ev)
     [] ev.e = "HDestroy" -> OnDestroy(ev)
     [] ev.e = "HEncode" -> OnEncode(ev)
     [] ev.e = "HEncClean" -> OnEncClean(ev)
     [] ev.e = "HDecode" -> OnDecode(ev)
     [] ev.e = "HDecClean" -> OnDecClean(ev)
     [] ev.e = "HRecon" -> OnRecon(ev)
     [] ev.e = "HNeeded" -> OnNeeded(ev)
     [] ev.e = "HMeta" -> OnMeta(ev)
     [] ev.e = "HFinv" -> OnFinv(ev)
     [] ev.e = "HVs" -> OnVs(ev)
     [] ev.e = "HSize" -> OnSize(ev)
     [] ev.e = "HAvail" -> OnAvail(ev)
     [] ev.e = "Proj" -> OnProj(ev)
     [] ev.e = "SetNext" -> [v |-> {}, s |-> [st EXCEPT !.next = ev.v], e |-> encD, d |-> decD]
     [] OTHER -> [v |-> {}, s |-> st, e |-> encD, d |-> decD]

Init == l = 1 /\ st = InitState /\ base = 0 /\ encD = << >> /\ decD = << >> /\ sync = FALSE
Report(v) == v # {} => PrintT("VIOL " \o ToString(l) \o " " \o ToJson(v))
Next ==
   /\ l <= Len(Tr)
   /\ l' = l + 1
   /\ LET ev == Tr[l] IN
      /\ Bump(1)
      /\ IF ev.e = "Reset" THEN
            /\ st' = [InitState EXCEPT !.next = ev.next] /\ base' = ev.l /\ encD' = << >> /\ decD' = << >> /\ sync' = TRUE
            /\ Bump(2)
            /\ Report((IF sync /\ base # 0 /\ ev.l # base THEN {"C16 live block count after a full reset differs from the first baseline"} ELSE {})
                      \cup (IF ev.gf = 1 THEN {"C16 GF tables still allocated although no instance is live"} ELSE {}))
         ELSE IF ev.e = "Fault" THEN
            \* a NULL dereference while an allocation failure is being injected = an unchecked allocation result: none of
            \* the listed properties speaks of running out of memory, so it is counted (register 12), not reported
            /\ (IF Has(ev, "nullderef") /\ ev.nullderef = 1 /\ Has(ev["in"], "armed") /\ ev["in"].armed = 1
                THEN Bump(12) ELSE Report({"fault: " \o ev.how}) /\ Bump(3))
            /\ sync' = FALSE /\ UNCHANGED <<st, base, encD, decD>>
         ELSE IF ~sync THEN UNCHANGED <<st, base, encD, decD, sync>>
         ELSE LET r == Step(ev) IN
            /\ Report(r.v)
            /\ (Drift(ev) => PrintT("DRIFT " \o ToString(l)) /\ Bump(13))
            /\ st' = r.s /\ encD' = r.e /\ decD' = r.d /\ UNCHANGED <<base, sync>>
            /\ (ev.e = "HCreate" => Bump(4) /\ (ev.rc > 0 => Bump(5)))
            /\ (ev.e = "HDestroy" => Bump(6))
            /\ (ev.e \in {"HEncode", "HDecode", "HRecon", "HNeeded", "HMeta", "HFinv", "HVs", "HSize"} => Bump(7) /\ (ev.rc < 0 => Bump(8)))
            /\ (Has(ev, "fired") /\ ev.fired = 1 => Bump(9))
            /\ (ev.e = "Proj" => Bump(10))
            /\ (ev.e = "HCreate" /\ ev.rc > 0 /\ (ev.next0 = 2147483647 \/ ev.rc # ev.next0 + 1) => Bump(11))
Spec == Init /\ [][Next]_vars
Accepted == /\ PrintT("COUNTS " \o ToJson([i \in 1..16 |-> TLCGet(i)]))
            /\ TLCGet("stats").diameter = Len(Tr) + 1
=============================================================================
