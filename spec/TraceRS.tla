------------------------------- MODULE TraceRS -------------------------------
(* Trace validation for C04: the generator matrix exported by the RS plug-in   *)
(* (make_systematic_matrix) and parity words produced by the public encode for *)
(* basis data, against the closed form of RSVand.                              *)
EXTENDS RSVand, Json, IOUtils
Tr == ndJsonDeserialize(IOEnv.TRACE)
VARIABLE l
Has(ev, f) == f \in DOMAIN ev
Bump(i) == TLCSet(i, TLCGet(i) + 1)
ASSUME \A i \in 1..6 : TLCSet(i, 0)

\* closed-form matrix, flattened row-major like the C array; normaliser inverses computed once per event
Flat(k, m) ==
   LET linv == TLCEval([j \in 1..k |-> GfInv(L(k, j-1, k))])
   IN [p \in 1..((k+m)*k) |->
         LET x == (p-1) \div k  j == (p-1) % k IN
         IF x < k THEN (IF j = x THEN 1 ELSE 0) ELSE GfMul(L(k, j, x), linv[j+1])]
MatrixViol(ev) ==
   IF ev.k < 1 THEN {"C04 matrix could not be obtained"}
   ELSE IF Has(ev, "null") THEN {"C04 make_systematic_matrix returned NULL"}
   ELSE IF ev.mat # Flat(ev.k, ev.m) THEN {"C04 generator matrix differs from the canonical closed form"} ELSE {}
\* word i of parity r of the basis encode of column j (data word i = 2^(i mod 16))  =  Coef(k, k+r, j) * 2^(i mod 16),
\* for every word of the payload (payload sizes of every residue modulo 16 bytes and very short ones)
BasisViol(ev) ==
   LET k == ev.k  j == ev.j
       nw == IF Has(ev, "nw") THEN ev.nw ELSE 16
       linv == GfInv(L(k, j, k))
       pat == IF Has(ev, "pat") THEN ev.pat ELSE 0
       \* which data words of column j are non-zero (0-based word index x): all; only the last; the second half; two late ones
       On(x) == CASE pat = 0 -> TRUE [] pat = 1 -> x = nw - 1 [] pat = 2 -> x >= nw \div 2 + 1 [] OTHER -> x = nw - 1 \/ x = nw \div 2 + 2
       want == [r \in 1..ev.m |-> LET c == GfMul(L(k, j, k + r - 1), linv) IN [i \in 1..nw |-> IF On(i-1) THEN GfMul(c, 2^((i-1) % 16)) ELSE 0]]
   IN IF Has(ev, "periodic") /\ ev.periodic # 1 THEN {"C04 parity of a large periodic basis encode does not repeat with the data's period (some strip or window of the payload is computed differently)"}
      ELSE IF ev.flen # 80 + 2 * nw THEN {"C04 payload of a basis encode is not the data length / k"}
      ELSE IF ev.par # want THEN {"C04 parity words of a basis encode differ from coefficient * 2^i"} ELSE {}
Viol(ev) ==
   CASE ev.e = "Matrix" -> MatrixViol(ev)
     [] ev.e = "Basis" -> BasisViol(ev)
     [] ev.e = "Lin" -> IF ev.ok # 1 THEN {"C04 encode is not GF(2)-linear"} ELSE {}
     [] ev.e = "Fault" -> {"fault: " \o ev.how}
     [] ev.e = "Create" -> IF ev.rc <= 0 /\ (~Has(ev, "wnat") \/ ev.wnat = 1) THEN {"create failed in a sweep"} ELSE {}
     [] ev.e = "Enc" -> IF ev.rc # 0 THEN {"encode failed in a sweep"} ELSE {}
     [] OTHER -> {}
Init == l = 1
Next == /\ l <= Len(Tr)
        /\ LET ev == Tr[l] v == Viol(ev) IN
             /\ (v # {} => PrintT("VIOL " \o ToString(l) \o " " \o ToJson(v)))
             /\ Bump(1) /\ (ev.e = "Matrix" => Bump(2)) /\ (ev.e = "Basis" => Bump(3)) /\ (ev.e = "Lin" => Bump(4))
        /\ l' = l + 1
Spec == Init /\ [][Next]_l
Accepted == /\ PrintT("COUNTS " \o ToJson([i \in 1..6 |-> TLCGet(i)]))
            /\ TLCGet("stats").diameter = Len(Tr) + 1
=============================================================================
