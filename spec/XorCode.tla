----------------------------- MODULE XorCode -----------------------------
(* Algebra of a flat XOR code over GF(2): a fragment is the XOR of a set of   *)
(* data symbols, represented as an integer bitmask over data indexes 0..k-1.  *)
EXTENDS XorTables, FiniteSets, FiniteSetsExt, SequencesExt, Bitwise, TLC

HasBit(bm, i) == (bm \div (2^i)) % 2 = 1
N(t) == t.k + t.m
\* derived data-side table: bit j set iff data i is in parity j (the code stores it redundantly)
DataBm(t, i) == SumSet({2^j : j \in {jj \in 0..(t.m-1) : HasBit(t.pbm[jj+1], i)}})
\* generator row of fragment x as a combination of data symbols
RowOf(t, x) == IF x < t.k THEN 2^x ELSE t.pbm[x - t.k + 1]

TopBit(v) == Max({i \in 0..30 : HasBit(v, i)})
ReduceBy(v, basis) == FoldLeft(LAMBDA x, b : IF HasBit(x, b[1]) THEN x ^^ b[2] ELSE x, v, basis)
AddVec(basis, v) == LET r == ReduceBy(v, basis) IN IF r = 0 THEN basis ELSE Append(basis, <<TopBit(r), r>>)
BasisOf(t, idxSeq) == FoldLeft(LAMBDA b, y : AddVec(b, RowOf(t, y)), <<>>, idxSeq)
InSpanOf(t, idxSeq, x) == ReduceBy(RowOf(t, x), BasisOf(t, idxSeq)) = 0
Rank(t, idxSeq) == Len(BasisOf(t, idxSeq))

Survivors(t, E) == SetToSortSeq((0..(N(t)-1)) \ E, <)
\* every erased fragment is determined by the survivors  <=>  the data is (rank k)
Recoverable(t, E) == Rank(t, Survivors(t, E)) = t.k
WithinTolerance(t, E) == Cardinality(E) < t.hd
=============================================================================
