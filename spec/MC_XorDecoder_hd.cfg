CONSTANTS MaxE = 4
 Collect = TRUE
INIT Init
NEXT Next
INVARIANTS InvNoSilent
CHECK_DEADLOCK FALSE
