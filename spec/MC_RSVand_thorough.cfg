CONSTANTS NMax = 32
 OnlyFull = FALSE
 NAlg = 9
INIT Init
NEXT Next
INVARIANTS InvLNonZero InvClosedForm InvFirstParityXor InvMDS InvRecon
CHECK_DEADLOCK FALSE
