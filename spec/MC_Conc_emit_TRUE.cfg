CONSTANTS Threads = {1, 2}
 SharedUsers = {11}
 Nodes = {1, 2}
 Pre = TRUE
 Safe <- TT
SPECIFICATION HSpec
VIEW hview
ACTION_CONSTRAINT Emit
INVARIANTS NoBad UniqueDesc NoRace
CHECK_DEADLOCK FALSE
