------------------------------- MODULE MC_IsaL -------------------------------
(* C19: for both ISA-L matrix generators and every erasure set the front end  *)
(* admits (|E| <= m): if the first k surviving generator rows are invertible  *)
(* the adapter's row synthesis is exact; singular survivor sets are counted   *)
(* (the adapter must refuse them, which the trace validation checks).         *)
EXTENDS IsaL, Json
CONSTANTS NMax
VARIABLES be, k, m, E
vars == <<be, k, m, E>>
Init == be \in {4, 7} /\ k \in 1..(NMax-1) /\ m \in 1..(NMax-1) /\ k + m <= NMax /\ E = {}
Next == /\ Cardinality(E) < m
        /\ \E i \in 0..(k+m-1) : i \notin E /\ E' = E \cup {i}
        /\ UNCHANGED <<be, k, m>>
Inv == SurvivorsInvertible(be, k, m, E)
InvExact == Inv => IsaDecodeExact(be, k, m, E)
\* the Cauchy generator is MDS: no erasure set of size <= m is singular
InvCauchyMDS == be = 7 => Inv
Singular == (~Inv) => PrintT(<<"SINGULAR", ToJson([be |-> be, k |-> k, m |-> m, E |-> SetToSortSeq(E, <)])>>)
=============================================================================
