------------------------------ MODULE MC_Libec ------------------------------
(* Model checking of the API state machine over small constants, and source   *)
(* of the behaviours replayed into the real library (edge cover): every       *)
(* generated transition prints the call history that leads to it.             *)
EXTENDS Libec, Json
CONSTANTS Slots,       \* abstract client-side handles, e.g. {1,2,3}
          MaxDepth,    \* longest history explored
          WithApi,     \* TRUE: encode/decode/cleanup ownership actions as well
          EmitPaths,   \* TRUE: print one history per transition
          WithFaults   \* TRUE: backend operations may fail (C17): the failing call is an action of its own
MinIntModel == -2
VARIABLES st, slot, hist, lastRc
vars == <<st, slot, hist, lastRc>>
view == <<st, slot>>

Cfgs == << [be |-> 6, k |-> 2, m |-> 1, hd |-> 1, w |-> 16, ct |-> 2, null |-> FALSE],      \* built-in RS (shares the GF tables)
           [be |-> 3, k |-> 3, m |-> 3, hd |-> 3, w |-> 32, ct |-> 1, null |-> FALSE],      \* flat XOR
           [be |-> 6, k |-> 0, m |-> 2, hd |-> 2, w |-> 16, ct |-> 1, null |-> FALSE],      \* must be refused (k < 1)
           [be |-> 3, k |-> 4, m |-> 3, hd |-> 3, w |-> 32, ct |-> 1, null |-> FALSE],      \* must be refused (unsupported XOR shape)
           [be |-> 6, k |-> 4, m |-> 2, hd |-> 2, w |-> 16, ct |-> 1, null |-> TRUE] >>     \* must be refused (NULL args)

Init == st = InitState /\ slot = [s \in Slots |-> 0] /\ hist = <<>> /\ lastRc = 0
Rec(h) == hist' = Append(hist, h)
\* the live slot (if any) whose descriptor is the first candidate the allocator will try: the replay puts the
\* real counter just below that slot's real descriptor so that the same collision happens in the real registry
Cand == IF Inc(st.next) <= 0 THEN 1 ELSE Inc(st.next)
Collide == IF \E s \in Slots : slot[s] \in Live(st) /\ slot[s] = Cand THEN CHOOSE s \in Slots : slot[s] \in Live(st) /\ slot[s] = Cand ELSE 0

Create(s, ci) ==
   /\ slot[s] \notin Live(st)
   /\ LET c == Cfgs[ci]
          e == ExpectCreate(st, c, FALSE)
          rc == IF e.cls = "neg" THEN -1 ELSE e.d
      IN /\ st' = CreateEffect(st, c, rc)
         /\ slot' = IF rc > 0 THEN [slot EXCEPT ![s] = rc] ELSE slot
         /\ lastRc' = rc
         /\ Rec([op |-> "create", s |-> s, ci |-> ci, cfg |-> c, wrap |-> (st.next = MaxInt), coll |-> Collide, exp |-> e.cls, d |-> rc])
NoOwed(x) == \A p \in st.owedE \cup st.owedD : p[1] # x
Destroy(s) ==
   /\ slot[s] # 0 /\ NoOwed(slot[s])
   /\ LET x == slot[s]  rc == IF ExpectDestroy(st, x) = "ok" THEN 0 ELSE -1
      IN st' = DestroyEffect(st, x, rc) /\ lastRc' = rc /\ Rec([op |-> "destroy", s |-> s, exp |-> ExpectDestroy(st, x)])
   /\ UNCHANGED slot
DestroyRaw(v) ==
   /\ v \notin Live(st)
   /\ st' = st /\ lastRc' = -1 /\ Rec([op |-> "destroy_raw", v |-> v, exp |-> "neg"]) /\ UNCHANGED slot
Encode(s) ==
   /\ WithApi /\ slot[s] # 0 /\ <<slot[s], s>> \notin st.owedE
   /\ LET x == slot[s]  cls == ExpectEncode(st, x, 0, FALSE)  rc == IF cls = "ok" THEN 0 ELSE -1
      IN st' = EncodeEffect(st, x, s, rc) /\ lastRc' = rc /\ Rec([op |-> "encode", s |-> s, exp |-> cls])
   /\ UNCHANGED slot
EncClean(s) ==
   /\ WithApi /\ slot[s] # 0
   /\ LET x == slot[s]  cls == ExpectEncClean(st, x)  rc == IF cls = "ok" THEN 0 ELSE -1
          had == <<x, s>> \in st.owedE
      IN st' = EncCleanEffect(st, x, s, rc, had) /\ lastRc' = rc /\ Rec([op |-> "enc_cleanup", s |-> s, exp |-> cls, had |-> had])
   /\ UNCHANGED slot
\* decode of the slot's own stripe: kind "tol" (within tolerance), "few" (fewer than k fragments)
Decode(s, kind) ==
   /\ WithApi /\ slot[s] # 0 /\ <<slot[s], s>> \in st.owedE /\ <<slot[s], s>> \notin st.owedD
   /\ LET x == slot[s]
          cls == ExpectDecode(st, x, 0, 0, IF kind = "few" THEN 1 ELSE 99, IF kind = "few" THEN 1 ELSE 99, TRUE, kind = "tol", FALSE)
          rc == IF cls = "ok" THEN 0 ELSE -1
      IN st' = DecodeEffect(st, x, s, rc) /\ lastRc' = rc /\ Rec([op |-> "decode", s |-> s, kind |-> kind, exp |-> cls])
   /\ UNCHANGED slot
DecClean(s) ==
   /\ WithApi /\ slot[s] # 0 /\ <<slot[s], s>> \in st.owedD
   /\ LET x == slot[s]  cls == ExpectDecClean(st, x)  rc == IF cls = "ok" THEN 0 ELSE -1
      IN st' = DecCleanEffect(st, x, s, rc, TRUE) /\ lastRc' = rc /\ Rec([op |-> "dec_cleanup", s |-> s, exp |-> cls])
   /\ UNCHANGED slot
\* ---- a backend operation reports failure (C17): negative result, nothing owed, state exactly as before, and the
\* ---- actions that follow (any of the above) behave normally because the state is unchanged
CreateFail(s, ci) ==
   /\ WithFaults /\ slot[s] \notin Live(st) /\ ~MustRefuseCreate(Cfgs[ci])
   /\ LET e == ExpectCreate(st, Cfgs[ci], TRUE)
      IN st' = CreateEffect(st, Cfgs[ci], -1) /\ lastRc' = -1
         /\ Rec([op |-> "create_fail", s |-> s, ci |-> ci, cfg |-> Cfgs[ci], exp |-> e.cls])
   /\ UNCHANGED slot
EncodeFail(s) ==
   /\ WithFaults /\ WithApi /\ slot[s] \in Live(st) /\ <<slot[s], s>> \notin st.owedE
   /\ LET cls == ExpectEncode(st, slot[s], 0, TRUE)
      IN st' = EncodeEffect(st, slot[s], s, -1) /\ lastRc' = -1 /\ Rec([op |-> "encode_fail", s |-> s, be |-> st.live[slot[s]].be, exp |-> cls])
   /\ UNCHANGED slot
DecodeFail(s, what) ==
   /\ WithFaults /\ WithApi /\ slot[s] \in Live(st) /\ <<slot[s], s>> \in st.owedE /\ <<slot[s], s>> \notin st.owedD
   /\ LET cls == IF what = "decode" THEN ExpectDecode(st, slot[s], 0, 0, 99, 99, TRUE, TRUE, TRUE)
                 ELSE ExpectRecon(st, slot[s], 0, 0, 0, 99, 99, TRUE, TRUE, TRUE)
      IN st' = DecodeEffect(st, slot[s], s, -1) /\ lastRc' = -1
         /\ Rec([op |-> what \o "_fail", s |-> s, be |-> st.live[slot[s]].be, exp |-> cls])
   /\ UNCHANGED slot
Next == /\ Len(hist) < MaxDepth
        /\ \/ \E s \in Slots, ci \in 1..Len(Cfgs) : Create(s, ci)
           \/ \E s \in Slots : Destroy(s) \/ Encode(s) \/ EncClean(s) \/ Decode(s, "tol") \/ Decode(s, "few") \/ DecClean(s)
           \/ \E v \in {0, -1, MaxInt} : DestroyRaw(v)
           \/ \E s \in Slots, ci \in 1..Len(Cfgs) : CreateFail(s, ci)
           \/ \E s \in Slots : EncodeFail(s) \/ DecodeFail(s, "decode") \/ DecodeFail(s, "recon")
Spec == Init /\ [][Next]_vars

\* ---- properties (C14, C16, C13) ----
InvDesc == DescPositiveUnique(st)
InvOwed == OwedOnlyOnLive(st)
\* C17: a call whose backend operation failed is a failed call
FaultIsError == [][(Len(hist') > Len(hist) /\ hist'[Len(hist')].op \in {"create_fail", "encode_fail", "decode_fail", "recon_fail"})
                    => (lastRc' < 0 /\ st' = st /\ hist'[Len(hist')].exp = "neg")]_vars
FailedCallChangesNothing == [][lastRc' < 0 => st' = st]_vars
\* a successful create never returns a descriptor that is live in the state before the call
FreshDesc == [][\A d \in Live(st') \ Live(st) : d \notin Live(st) /\ d >= 1]_vars
Emit == EmitPaths => PrintT(<<"EDGE", ToJson(hist')>>)
=============================================================================
