CONSTANTS NMax = 32
 OnlyFull = TRUE
 NAlg = 7
INIT Init
NEXT Next
INVARIANTS InvLNonZero InvClosedForm InvFirstParityXor InvMDS InvRecon
CHECK_DEADLOCK FALSE
