---------------------------- MODULE XorDecoder ----------------------------
(* Branch-for-branch transcription of the flat-XOR decoder and planner:       *)
(*   src/builtin/xor_codes/xor_code.c     get_failure_pattern,                *)
(*        index_of_connected_parity, num_missing_data_in_parity,              *)
(*        selective_encode, xor_reconstruct_one, remove_from_missing_list     *)
(*   src/builtin/xor_codes/xor_hd_code.c  decode_one/two/three_data,          *)
(*        xor_hd_decode, fragments_needed_*, xor_hd_fragments_needed          *)
(*   src/backends/xor/flat_xor_hd.c       return-code plumbing                *)
(* Buffers are symbolic: each holds a bitmask = the set of data symbols XORed *)
(* into it; a missing buffer starts at 0 (the library zero-fills it); memcpy  *)
(* is assignment, xor_bufs_and_store is ^^.  C-level undefined behaviour      *)
(* (array index -1, negative shift count) sets the flag ub.                   *)
EXTENDS XorCode

\* ---- lines of the code whose exact form matters for C02/C05/C06, kept as named
\* ---- operators so that the transcription follows the code when they change.
\* D2Repaired / D3Repaired select between the behaviour of the pinned tree
\* (FALSE) and of the tree after the corresponding "fix:" commit (TRUE); the
\* value written here must describe /repo's current working tree.
D2Repaired == TRUE
D3Repaired == TRUE
\* xor_code.c get_failure_pattern: `num_failures` is compared with hd but never incremented
\* (dead test; left as it is by the repair, the switch already caps at three failures)
FailInc == 0
\* xor_hd_code.c xor_hd_decode: case FAIL_PATTERN_GE_HD leaves ret = 0 (pinned) / returns -1 (repaired)
GeRc == IF D2Repaired THEN -1 ELSE 0
\* xor_hd_code.c decode_one_data with no connected parity: parity[-1-k] is read (pinned, undefined
\* behaviour) / the function reports -1 and the callers propagate it (repaired)
NoParity(st) == IF D2Repaired THEN [st EXCEPT !.rc = -1] ELSE [st EXCEPT !.ub = TRUE]
\* flat_xor_hd.c flat_xor_hd_reconstruct: the backend's result is discarded, 0 is returned (pinned)
ReconFallback(st) == IF D2Repaired THEN st ELSE [st EXCEPT !.rc = 0]
\* flat_xor_hd.c flat_xor_hd_min_fragments: the planner's return value is discarded (pinned)
PlanRc(rc) == IF D3Repaired THEN rc ELSE 0
\* xor_hd_code.c:165-166: 1 << (contains_2d - k) with contains_2d a RELATIVE index: negative
\* shift count (undefined behaviour; x86 semantics modelled so that runs can be compared)
Shl1(c) == 2^(IF c % 32 = 31 THEN 30 ELSE c % 32)
PQAcc(t, acc, c2, c3, tmp) ==
   IF D3Repaired
   THEN [acc EXCEPT !.p = ((acc.p | 2^c2) | 2^c3), !.d = (acc.d | tmp)]
   ELSE [acc EXCEPT !.p = (((acc.p | Shl1(c2 - t.k)) | Shl1(c3 - t.k))), !.d = (acc.d | tmp), !.ub = TRUE]
\* fragments_needed_one_data_local: missing data handed to the connected-parity search
\* (pinned: the fragment being rebuilt is NOT counted among the missing data;
\*  repaired: it is appended unless the caller already listed it as excluded)
LocalMissingData(r, xd) == IF D3Repaired /\ r \notin Range(xd) THEN <<r>> \o xd ELSE xd

NullL == <<-1>>   \* stands for a NULL list pointer
IsNull(l) == l = NullL

\* num_missing_data_in_parity (pabs = absolute parity index); reads the data-side table
NumMissingInParity(t, pabs, md) ==
   IF IsNull(md) THEN 0 ELSE Cardinality({q \in 1..Len(md) : HasBit(DataBm(t, md[q]), pabs - t.k)})

\* index_of_connected_parity: absolute parity index or -1
IOCP(t, di, mp, md) ==
   LET ok(i) == /\ NumMissingInParity(t, i + t.k, md) <= 1
                /\ HasBit(t.pbm[i+1], di)
                /\ (IsNull(mp) \/ \A q \in 1..Len(mp) : mp[q] # t.k + i)
       c == {i \in 0..(t.m-1) : ok(i)}
   IN IF c = {} THEN -1 ELSE Min(c) + t.k

\* st = [D |-> seq of masks (index i+1), P |-> seq of masks, ub |-> BOOLEAN, rc |-> Int]
XorInto(t, st, di, pbm) == \* D[di] ^= all D[i], i # di, i in pbm
   LET idxs == SetToSortSeq({i \in 0..(t.k-1) : i # di /\ HasBit(pbm, i)}, <)
       v == FoldLeft(LAMBDA acc, i : acc ^^ st.D[i+1], st.D[di+1], idxs)
   IN [st EXCEPT !.D[di+1] = v]

\* decode_one_data: no check of parity_index < 0  (parity[-1-k] is a wild read)
DecodeOne(t, st, md, mp) ==
   LET di == md[1]
       pi == IOCP(t, di, mp, md)
   IN IF pi < 0 THEN NoParity(st)
      ELSE XorInto(t, [st EXCEPT !.D[di+1] = st.P[pi - t.k + 1]], di, t.pbm[pi - t.k + 1])

DecodeTwo(t, st, md, mp) ==
   LET p0 == IOCP(t, md[1], mp, md)
       p1 == IOCP(t, md[2], mp, md)
   IN IF p0 < 0 /\ p1 < 0 THEN [st EXCEPT !.rc = -2]
      ELSE LET di == IF p0 >= 0 THEN md[1] ELSE md[2]
               pi == IF p0 >= 0 THEN p0 ELSE p1
               rest == IF p0 >= 0 THEN <<md[2]>> ELSE <<md[1]>>
               s1 == XorInto(t, [st EXCEPT !.D[di+1] = st.P[pi - t.k + 1]], di, t.pbm[pi - t.k + 1])
           IN DecodeOne(t, s1, rest, mp)

DecodeThree(t, st, md, mp) ==
   LET conn == [q \in 1..3 |-> IOCP(t, md[q], mp, md)]
       qs == {q \in 1..3 : conn[q] >= 0}
   IN IF qs # {} THEN
         LET q == Min(qs)
             di == md[q]
             pi == conn[q]
             s1 == XorInto(t, [st EXCEPT !.D[di+1] = st.P[pi - t.k + 1]], di, t.pbm[pi - t.k + 1])
             rest == SelectSeq(md, LAMBDA x : x # di)
         IN DecodeTwo(t, s1, rest, mp)
      ELSE
         LET n2 == {i \in 0..(t.m-1) : NumMissingInParity(t, t.k + i, md) = 2}
             n3 == {i \in 0..(t.m-1) : NumMissingInParity(t, t.k + i, md) = 3}
         IN IF n2 = {} \/ n3 = {} THEN [st EXCEPT !.rc = -2]
            ELSE LET c2 == Min(n2)  c3 == Min(n3)
                     pbm == t.pbm[c2+1] ^^ t.pbm[c3+1]
                     buf == st.P[c2+1] ^^ st.P[c3+1]
                     cand == {q \in 1..3 : HasBit(pbm, md[q])}
                 IN IF cand = {} THEN [st EXCEPT !.rc = -2]
                    ELSE LET di == md[Min(cand)]
                             s1 == XorInto(t, [st EXCEPT !.D[di+1] = buf], di, pbm)
                             rest == SelectSeq(md, LAMBDA x : x # di)
                         IN DecodeTwo(t, s1, rest, mp)

SelectiveEncode(t, st, mp) ==
   FoldLeft(LAMBDA s, p :
      LET j == p - t.k
          v == FoldLeft(LAMBDA acc, i : IF HasBit(t.pbm[j+1], i) THEN acc ^^ s.D[i+1] ELSE acc,
                        s.P[j+1], [i \in 1..t.k |-> i-1])
      IN [s EXCEPT !.P[j+1] = v], st, mp)

\* get_failure_pattern as <<nd, np>> or GE
GE == <<-1,-1>>
Pattern(t, miss) ==
   LET step(acc, x) ==          \* acc = <<pattern, number of failures counted so far>>
         LET pat == acc[1]  cnt == acc[2] IN
         IF pat = GE THEN acc
         ELSE IF cnt >= t.hd THEN <<GE, cnt>>
         ELSE LET isd == x < t.k
                  nd == pat[1]  np == pat[2]
              IN IF nd + np >= 3 THEN <<GE, cnt>>
                 ELSE << <<IF isd THEN nd+1 ELSE nd, IF isd THEN np ELSE np+1>>, cnt + FailInc >>
   IN FoldLeft(step, << <<0,0>>, 0 >>, miss)[1]

\* the missing list as get_fragment_partition builds it: data ascending, then parity ascending
MissList(t, E) == SetToSortSeq(E, <)
InitState(t, miss) ==
   [D |-> [i \in 1..t.k |-> IF (i-1) \in Range(miss) THEN 0 ELSE 2^(i-1)],
    P |-> [j \in 1..t.m |-> IF (t.k + j - 1) \in Range(miss) THEN 0 ELSE t.pbm[j]],
    ub |-> FALSE, rc |-> 0]

\* xor_hd_decode (decode_parity = 1)
DecodeFrom(t, st0, miss) ==
   LET md == SelectSeq(miss, LAMBDA x : x < t.k)
       mp == SelectSeq(miss, LAMBDA x : x >= t.k)
       pat == Pattern(t, miss)
   IN CASE pat = GE -> [st0 EXCEPT !.rc = GeRc]
        [] pat = <<0,0>> -> st0
        [] pat = <<1,0>> -> DecodeOne(t, st0, md, NullL)
        [] pat = <<2,0>> -> DecodeTwo(t, st0, md, NullL)
        [] pat = <<3,0>> -> DecodeThree(t, st0, md, NullL)
        [] pat = <<1,1>> \/ pat = <<1,2>> -> SelectiveEncode(t, DecodeOne(t, st0, md, mp), mp)
        [] pat = <<2,1>> -> SelectiveEncode(t, DecodeTwo(t, st0, md, mp), mp)
        [] OTHER -> SelectiveEncode(t, st0, mp)   \* 0D_1P, 0D_2P, 0D_3P
Decode(t, miss) == DecodeFrom(t, InitState(t, miss), miss)

Correct(t, st) == /\ \A i \in 1..t.k : st.D[i] = 2^(i-1)
                  /\ \A j \in 1..t.m : st.P[j] = t.pbm[j]
DataCorrect(t, st) == \A i \in 1..t.k : st.D[i] = 2^(i-1)

\* xor_reconstruct_one + flat_xor_hd_reconstruct (whose return value is ReconRc(...))
ReconstructOne(t, miss, dest) ==
   LET md == SelectSeq(miss, LAMBDA x : x < t.k)
       mp == SelectSeq(miss, LAMBDA x : x >= t.k)
       st0 == InitState(t, miss)
   IN IF dest < t.k THEN
         LET pi == IOCP(t, dest, mp, md)
         IN IF pi >= 0
            THEN XorInto(t, [st0 EXCEPT !.D[dest+1] = st0.P[pi - t.k + 1]], dest, t.pbm[pi - t.k + 1])
            ELSE ReconFallback(DecodeFrom(t, st0, miss))
      ELSE
         IF NumMissingInParity(t, dest, md) = 0
         THEN LET j == dest - t.k
                  v == FoldLeft(LAMBDA acc, i : IF HasBit(t.pbm[j+1], i) THEN acc ^^ st0.D[i+1] ELSE acc,
                                0, [i \in 1..t.k |-> i-1])
              IN [st0 EXCEPT !.P[j+1] = v]
         ELSE ReconFallback(DecodeFrom(t, st0, miss))
DestCorrect(t, st, dest) == IF dest < t.k THEN st.D[dest+1] = 2^dest ELSE st.P[dest - t.k + 1] = t.pbm[dest - t.k + 1]

\* ---------------- planner transcription (xor_hd_fragments_needed) ----------------
ClearBit(bm, i) == IF HasBit(bm, i) THEN bm - 2^i ELSE bm
OrBm(a, b) == a | b
\* acc = [d |-> data_bm, p |-> parity_bm, ub |-> BOOLEAN]
NeedOne(t, md, mp, acc) ==
   LET di == md[1]  pi == IOCP(t, di, mp, md)
   IN IF pi < 0 THEN [rc |-> -1, acc |-> acc]
      ELSE [rc |-> 0, acc |-> [acc EXCEPT !.d = ClearBit(OrBm(acc.d, t.pbm[pi - t.k + 1]), di),
                                         !.p = OrBm(acc.p, 2^(pi - t.k))]]
NeedTwo(t, md, mp, acc) ==
   LET p0 == IOCP(t, md[1], mp, md)
       p1 == IOCP(t, md[2], mp, md)
   IN IF p0 < 0 /\ p1 < 0 THEN [rc |-> -1, acc |-> acc]
      ELSE LET di == IF p0 >= 0 THEN md[1] ELSE md[2]
               pi == IF p0 >= 0 THEN p0 ELSE p1
               rest == IF p0 >= 0 THEN <<md[2]>> ELSE <<md[1]>>
               a1 == [acc EXCEPT !.d = OrBm(acc.d, t.pbm[pi - t.k + 1]), !.p = OrBm(acc.p, 2^(pi - t.k))]
               r == NeedOne(t, rest, mp, a1)
           IN [rc |-> r.rc, acc |-> [r.acc EXCEPT !.d = ClearBit(r.acc.d, di)]]
NeedThree(t, md, mp, acc) ==
   LET conn == [q \in 1..3 |-> IOCP(t, md[q], mp, md)]
       qs == {q \in 1..3 : conn[q] >= 0}
   IN IF qs # {} THEN
         LET q == Min(qs)  di == md[q]  pi == conn[q]
             a1 == [acc EXCEPT !.p = OrBm(acc.p, 2^(pi - t.k)), !.d = OrBm(acc.d, t.pbm[pi - t.k + 1])]
             r == NeedTwo(t, SelectSeq(md, LAMBDA x : x # di), mp, a1)
         IN [rc |-> r.rc, acc |-> [r.acc EXCEPT !.d = ClearBit(r.acc.d, di)]]
      ELSE
         LET n2 == {i \in 0..(t.m-1) : NumMissingInParity(t, t.k + i, md) = 2}
             n3 == {i \in 0..(t.m-1) : NumMissingInParity(t, t.k + i, md) = 3}
         IN IF n2 = {} \/ n3 = {} THEN [rc |-> -1, acc |-> acc]
            ELSE LET c2 == Min(n2)  c3 == Min(n3)
                     tmp == t.pbm[c2+1] ^^ t.pbm[c3+1]
                     cand == {q \in 1..3 : HasBit(tmp, md[q])}
                 IN IF cand = {} THEN [rc |-> -1, acc |-> acc]
                    ELSE LET di == md[Min(cand)]
                             a1 == PQAcc(t, acc, c2, c3, tmp)
                             r == NeedTwo(t, SelectSeq(md, LAMBDA x : x # di), mp, a1)
                         IN [rc |-> r.rc, acc |-> [r.acc EXCEPT !.d = ClearBit(r.acc.d, di)]]
OrParities(t, acc, mp, mdbm) ==
   FoldLeft(LAMBDA a, p : [a EXCEPT !.d = (OrBm(a.d, t.pbm[p - t.k + 1])) - (OrBm(a.d, t.pbm[p - t.k + 1]) & mdbm)], acc, mp)
BitsOf(bm, off) == SetToSortSeq({i + off : i \in {j \in 0..30 : HasBit(bm, j)}}, <)

\* fragments_needed_one_data_local: which lists it hands to index_of_connected_parity
Plan(t, R, X) ==
   LET acc0 == [d |-> 0, p |-> 0, ub |-> FALSE]
       pat1 == Pattern(t, R)
       xd == SelectSeq(X, LAMBDA x : x < t.k)
       xp == SelectSeq(X, LAMBDA x : x >= t.k)
       local == IF pat1 = <<1,0>>
                THEN LET pi == IOCP(t, R[1], xp, LocalMissingData(R[1], xd)) IN
                     IF pi < 0 THEN [rc |-> -1, acc |-> acc0]
                     ELSE [rc |-> 0, acc |-> [acc0 EXCEPT !.d = ClearBit(t.pbm[pi - t.k + 1], R[1]), !.p = 2^(pi - t.k)]]
                ELSE [rc |-> -1, acc |-> acc0]
       res == IF local.rc = 0 THEN local ELSE
          LET miss == R \o X
              md == SelectSeq(miss, LAMBDA x : x < t.k)
              mp == SelectSeq(miss, LAMBDA x : x >= t.k)
              mdbm == SumSet({2^x : x \in Range(md)})
              pat == Pattern(t, miss)
          IN CASE pat = GE \/ pat = <<0,0>> -> [rc |-> -1, acc |-> acc0]
               [] pat = <<1,0>> -> NeedOne(t, md, NullL, acc0)
               [] pat = <<2,0>> -> NeedTwo(t, md, NullL, acc0)
               [] pat = <<3,0>> -> NeedThree(t, md, NullL, acc0)
               [] pat = <<1,1>> \/ pat = <<1,2>> -> LET r == NeedOne(t, md, mp, acc0) IN [rc |-> r.rc, acc |-> OrParities(t, r.acc, mp, mdbm)]
               [] pat = <<2,1>> -> LET r == NeedTwo(t, md, mp, acc0) IN [rc |-> r.rc, acc |-> OrParities(t, r.acc, mp, mdbm)]
               [] OTHER -> [rc |-> 0, acc |-> OrParities(t, acc0, mp, 0)]
   IN [rc |-> PlanRc(res.rc), ub |-> res.acc.ub,
       N |-> IF res.rc < 0 THEN <<>> ELSE BitsOf(res.acc.d, 0) \o BitsOf(res.acc.p, t.k)]

\* ---------------- the property of a planner answer (C06) ----------------
NoDup(s) == \A a, b \in 1..Len(s) : a # b => s[a] # s[b]
NeededOK(t, R, X, Ns) ==
   /\ NoDup(Ns)
   /\ \A q \in 1..Len(Ns) : Ns[q] \in 0..(N(t)-1) /\ Ns[q] \notin Range(R) /\ Ns[q] \notin Range(X)
   /\ \A q \in 1..Len(R) : InSpanOf(t, Ns, R[q])
=============================================================================
