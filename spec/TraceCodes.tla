---------------------------- MODULE TraceCodes ----------------------------
(* Trace validation of decode / reconstruct / fragments-needed events recorded *)
(* from the real library (harness/ecdrive.c) against the code algebra:         *)
(* XorCode/XorDecoder (flat XOR), the MDS bound (built-in RS) and IsaL         *)
(* (invertibility of the first k surviving generator rows).                    *)
(* Every event is consumed; an event the specification does not allow prints   *)
(*   <<"VIOL", position, {reasons}>>   and validation continues, so one run    *)
(* reports every offending event.  Acceptance = all events consumed.           *)
EXTENDS CodeOracles, Json, IOUtils

Tr == ndJsonDeserialize(IOEnv.TRACE)
VARIABLE l
Has(ev, f) == f \in DOMAIN ev
Bump(i) == TLCSet(i, TLCGet(i) + 1)
ASSUME \A i \in 1..12 : TLCSet(i, 0)

NN(ev) == ev.k + ev.m
Supplied(ev) == {ev.idx[i] : i \in 1..Len(ev.idx)}
MissingOf(ev, sup) == (0..(NN(ev) - 1)) \ sup
IsXor(ev) == ev.be = 3 /\ HasTable(ev.k, ev.m, ev.hd)
TabOf(ev) == TableOf(ev.k, ev.m, ev.hd)

Tolerated(ev, missing) == TolBy(ev.be, ev.k, ev.m, ev.hd, missing)
RefusalExcused(ev, missing) == ExcusedBy(ev.be, ev.k, ev.m, missing)

Damaged(ev) == Has(ev, "dmg") /\ \E i \in 1..Len(ev.dmg) : ev.dmg[i] # 0
\* fragments that pass validation (C20): undamaged ones; a payload flip is detectable only with CRC32
ValidIdx(ev) == {ev.idx[i] : i \in {j \in 1..Len(ev.idx) :
                   (~Has(ev, "dmg")) \/ ev.dmg[j] = 0 \/ (ev.dmg[j] = 1 /\ ev.ct # 2)}}

\* damage kinds 9 (magic) and 10 (metadata bytes vs stored metadata CRC) make the HEADER unacceptable: C09 has decode
\* fail with the bad-header error for such a fragment whether or not checks are forced, so for those events C20 only
\* demands that no wrong bytes come back
HeaderRefused(ev) == Has(ev, "dmg") /\ \E i \in 1..Len(ev.dmg) : ev.dmg[i] \in {9, 10}
DecViol(ev) ==
   LET sup == Supplied(ev)
       missing == MissingOf(ev, sup)
       ok == ev.rc = 0 /\ ev.match = 1
   IN  (IF ev.rc = 0 /\ ev.match # 1 /\ ~Damaged(ev) THEN {"C02 success with wrong bytes"} ELSE {})
   \cup (IF ~Damaged(ev) /\ Tolerated(ev, missing) /\ ~ok /\ ~(ev.rc < 0 /\ RefusalExcused(ev, missing))
         THEN {"C01 tolerated erasure set not decoded"} ELSE {})
   \cup (IF Damaged(ev) /\ ev.force # 0 /\ ev.ct = 2 /\ ev.rc = 0 /\ ev.match # 1
         THEN {"C20 forced checks: invalid fragment changed the result"} ELSE {})
   \cup (IF Damaged(ev) /\ ~HeaderRefused(ev) /\ ev.force # 0 /\ ev.ct = 2 /\ Tolerated(ev, MissingOf(ev, ValidIdx(ev))) /\ ~ok
            /\ ~(ev.rc < 0 /\ RefusalExcused(ev, MissingOf(ev, ValidIdx(ev))))
         THEN {"C20 forced checks: valid fragments suffice but decode failed"} ELSE {})
   \cup (IF ev.unch # 1 THEN {"C15 input fragment modified"} ELSE {})
   \cup (IF ev.ff # 0 THEN {"C16 library freed a caller buffer"} ELSE {})
   \cup (IF ev.l2 # ev.l0 THEN {"C16 decode+cleanup changed the live block count"} ELSE {})
   \cup (IF ev.rc < 0 /\ ev.l1 # ev.l0 THEN {"C16 failed decode kept memory"} ELSE {})

RecViol(ev) ==
   LET sup == Supplied(ev)
       missing == MissingOf(ev, sup)
       inrange == ev.dest \in 0..(NN(ev) - 1)
       ok == ev.rc = 0 /\ ev.same = 1
   IN  (IF ~inrange /\ ev.rc >= 0 THEN {"C03 destination out of range accepted"} ELSE {})
   \cup (IF ev.rc = 0 /\ inrange /\ ev.same # 1 THEN {"C02 reconstruct success with wrong bytes"} ELSE {})
   \cup (IF inrange /\ Tolerated(ev, missing) /\ ~ok /\ ~(ev.rc < 0 /\ RefusalExcused(ev, missing))
         THEN {"C03 tolerated reconstruct failed"} ELSE {})
   \cup (IF ev.rc = 0 /\ Has(ev, "tail") /\ ev.tail # 1 THEN {"C02 wrote past the output fragment"} ELSE {})
   \cup (IF ev.unch # 1 THEN {"C15 input fragment modified"} ELSE {})
   \cup (IF ev.ff # 0 THEN {"C16 library freed a caller buffer"} ELSE {})
   \cup (IF ev.l1 # ev.l0 THEN {"C16 reconstruct changed the live block count"} ELSE {})

\* ---- fragments needed (C06) ----
RsNeededOK(ev, R, X, Ns) == RsNeededOKBy(ev.k, ev.m, R, X, Ns)
NeedViol(ev) ==
   LET R == ev.R  X == ev.X
       both == Range(R) \cup Range(X)
       \* "ov": an index may sit in both lists (each list free of repeats); what counts is the union
       \* (judged for the Reed-Solomon type backends only: the flat-XOR planner classifies the concatenation of the two
       \* lists, the property's quantifier speaks of disjoint lists, and the unchanged tree refuses some overlapping ones)
       wellformed == (IF Has(ev, "ov") THEN ev.be \in {4, 6, 7} /\ NoDup(R) /\ NoDup(X) ELSE NoDup(R \o X)) /\ both \subseteq 0..(NN(ev)-1) /\ Len(R) > 0
       okN == IF ev.be = 3 THEN NeededOK(TabOf(ev), R, X, ev.N) ELSE RsNeededOK(ev, R, X, ev.N)
   IN IF ~wellformed THEN {}
      ELSE (IF ev.rc >= 0 /\ ~okN THEN {"C06 wrong list returned"} ELSE {})
      \cup (IF Tolerated(ev, both) /\ ev.rc < 0 THEN {"C06 refused within tolerance"} ELSE {})
      \cup (IF ev.l1 # ev.l0 THEN {"C16 fragments_needed changed the live block count"} ELSE {})

\* ---- equations observed through the public API, and the instance's own tables (C05 a) ----
XorEqViol(ev) ==
   IF ~HasTable(ev.k, ev.m, ev.hd) THEN {"C05 equations extracted for an unsupported shape"}
   ELSE LET t == TableOf(ev.k, ev.m, ev.hd) IN
        (IF ev.pbm # t.pbm THEN {"C05 parity equations differ from the golden table"} ELSE {})
   \cup (IF Has(ev, "ipbm") /\ ev.ipbm # t.pbm THEN {"C05 instance parity table differs from the golden table"} ELSE {})
   \cup (IF Has(ev, "dbm") /\ ev.dbm # [i \in 1..t.k |-> DataBm(t, i-1)]
         THEN {"C05 data-side table is not the transpose of the parity-side table"} ELSE {})
\* ---- which shapes creation accepts (C05 c, C13) ----
MustRefuse(ev) == ev.k < 1 \/ ev.m < 0 \/ ev.k + ev.m > 32
CreateBoxViol(ev) ==
     (IF ev.be = 3 /\ (ev.rc > 0) # XorSupported(ev.k, ev.m, ev.hd) THEN {"C05 create accepts exactly the supported flat-XOR shapes"} ELSE {})
\cup (IF MustRefuse(ev) /\ ev.rc >= 0 THEN {"C13 unsupported shape accepted"} ELSE {})
\cup (IF ev.rc = 0 THEN {"C14 create returned descriptor 0"} ELSE {})
\cup (IF ev.rc < 0 /\ ev.l1 # ev.l0 THEN {"C16 failed create kept memory"} ELSE {})
\cup (IF ev.rc > 0 /\ (ev.drc # 0 \/ ev.l2 # ev.l0) THEN {"C16 create+destroy changed the live block count"} ELSE {})

\* ---- transcription drift (information, not a verdict): the XorDecoder model's prediction ----
DecDrift(ev) ==
   IF ~IsXor(ev) \/ Damaged(ev) \/ Cardinality(MissingOf(ev, Supplied(ev))) > ev.m THEN FALSE
   ELSE LET t == TabOf(ev)
            r == Decode(t, MissList(t, MissingOf(ev, Supplied(ev))))
            fast == \A i \in 0..(ev.k-1) : i \in Supplied(ev)
        IN IF fast \/ r.ub THEN FALSE
           ELSE (r.rc < 0) # (ev.rc < 0) \/ (r.rc = 0 /\ ev.rc = 0 /\ DataCorrect(t, r) # (ev.match = 1))

Viol(ev) ==
   CASE ev.e = "Dec" -> DecViol(ev)
     [] ev.e = "Rec" -> RecViol(ev)
     [] ev.e = "Need" -> NeedViol(ev)
     [] ev.e = "XorEq" -> XorEqViol(ev)
     [] ev.e = "XorEqBad" -> {"C05 a parity is neither zero nor a copy of the unit data fragment"}
     [] ev.e = "CreateBox" -> CreateBoxViol(ev)
     [] ev.e = "ShortLen" -> (IF ev.drc >= 0 \/ ev.rrc >= 0 THEN {"C13 fragment length shorter than a header accepted"} ELSE {})
                             \cup (IF ev.l1 # ev.l0 THEN {"C16 refused short fragment length changed the live block count"} ELSE {})
     [] ev.e = "Fault" -> {"fault: " \o ev.how}
     [] ev.e = "Create" -> IF ev.rc <= 0 /\ (~Has(ev, "wnat") \/ ev.wnat = 1) THEN {"create failed in a sweep"} ELSE {}
     [] ev.e = "Enc" -> IF ev.rc # 0 THEN {"encode failed in a sweep"} ELSE {}
     [] OTHER -> {}

Count(ev) ==
   /\ Bump(1)
   /\ (ev.e = "Dec" => Bump(2) /\ LET mis == MissingOf(ev, Supplied(ev)) IN
         /\ (mis # {} => Bump(3))
         /\ (~Tolerated(ev, mis) => Bump(4))
         /\ (ev.rc < 0 => Bump(5)))
   /\ (ev.e = "Rec" => Bump(6) /\ (ev.rc < 0 => Bump(7)))
   /\ (ev.e = "Need" => Bump(8) /\ (ev.rc < 0 => Bump(9)))
   /\ (ev.e = "Fault" => Bump(10))
   /\ (ev.e = "XorEq" => Bump(11))
   /\ (ev.e = "CreateBox" => Bump(12))

Init == l = 1
Next == /\ l <= Len(Tr)
        /\ LET ev == Tr[l] v == Viol(ev) IN
             /\ (v # {} => PrintT("VIOL " \o ToString(l) \o " " \o ToJson(v)))
             /\ (ev.e = "Dec" /\ DecDrift(ev) => PrintT("DRIFT " \o ToString(l)))
             /\ Count(ev)
        /\ l' = l + 1
Spec == Init /\ [][Next]_l
Accepted == /\ PrintT("COUNTS " \o ToJson([i \in 1..12 |-> TLCGet(i)]))
            /\ TLCGet("stats").diameter = Len(Tr) + 1
=============================================================================
