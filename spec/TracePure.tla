------------------------------ MODULE TracePure ------------------------------
(* C15, history independence: the bytes encode produces are a function of     *)
(* (configuration, data, legacy switch) only.  The trace is the concatenation *)
(* of executions of several processes (fresh process, after arbitrary         *)
(* histories, with other instances alive, from another thread); `seen` maps   *)
(* each (configuration, length, seed, switch) to the digest first observed.   *)
EXTENDS Integers, Sequences, FiniteSets, TLC, Json, IOUtils
Tr == ndJsonDeserialize(IOEnv.TRACE)
VARIABLES l, seen
Key(ev) == <<ev.be, ev.k, ev.m, ev.hd, ev.ct, ev.len, ev.seed, ev.legacy>>
Bump(i) == TLCSet(i, TLCGet(i) + 1)
ASSUME \A i \in 1..4 : TLCSet(i, 0)
Init == l = 1 /\ seen = << >>
Next == /\ l <= Len(Tr) /\ l' = l + 1
        /\ LET ev == Tr[l] IN
           IF ev.e = "EncD" THEN
              LET k == Key(ev) IN
              /\ Bump(1)
              /\ (ev.rc # 0 => PrintT("VIOL " \o ToString(l) \o " " \o ToJson({"C15 encode failed in a purity history"})))
              /\ IF k \in DOMAIN seen
                 THEN /\ Bump(2)
                      /\ (seen[k] # <<ev.dig, ev.flen>> =>
                             PrintT("VIOL " \o ToString(l) \o " " \o ToJson({"C15 encode output depends on history: same configuration and data, different bytes"})))
                      /\ UNCHANGED seen
                 ELSE seen' = [x \in DOMAIN seen \cup {k} |-> IF x = k THEN <<ev.dig, ev.flen>> ELSE seen[x]]
           ELSE IF ev.e = "Fault" THEN
              /\ PrintT("VIOL " \o ToString(l) \o " " \o ToJson({"fault: " \o ev.how})) /\ UNCHANGED seen
           ELSE UNCHANGED seen
Spec == Init /\ [][Next]_<<l, seen>>
Accepted == /\ PrintT("COUNTS " \o ToJson([i \in 1..4 |-> TLCGet(i)]))
            /\ TLCGet("stats").diameter = Len(Tr) + 1
=============================================================================
