--------------------------- MODULE MC_XorPlanner ---------------------------
(* Exhaustive check of the transcribed flat-XOR planner (fragments_needed)    *)
(* over every table and every ordered pair of lists (R to rebuild, X to       *)
(* exclude) of distinct indexes with |R| + |X| <= MaxL, R non-empty.          *)
EXTENDS XorDecoder, Json
CONSTANTS MaxL,     \* longest R ++ X explored; 0 means "hd - 1" (the tolerance), 99 means "hd"
          Collect
TT == TRUE
VARIABLES ti, L, r      \* L: ordered list of distinct indexes (R ++ X); r: split point (|R|)
vars == <<ti, L, r>>
T == Tables[ti]
Lim == IF MaxL = 0 THEN T.hd - 1 ELSE IF MaxL = 99 THEN T.hd ELSE MaxL
Init == ti \in 1..Len(Tables) /\ L = <<>> /\ r = 0
Next == \/ /\ Len(L) < Lim
           /\ \E i \in 0..(N(T) - 1) : i \notin Range(L) /\ L' = Append(L, i)
           /\ r' = 0 /\ UNCHANGED ti
        \/ /\ r < Len(L) /\ r' = r + 1 /\ UNCHANGED <<ti, L>>
R == SubSeq(L, 1, r)
X == SubSeq(L, r+1, Len(L))
Res == Plan(T, R, X)
Within == Len(L) < T.hd
\* C06: within tolerance -> success with a usable list; otherwise an error or a usable list; never UB
BadAnswer == LET res == Res IN
   \/ res.ub
   \/ (res.rc >= 0 /\ ~NeededOK(T, R, X, res.N))
   \/ (Within /\ res.rc < 0)
Emit == PrintT(<<"CASE", ToJson([k |-> T.k, m |-> T.m, hd |-> T.hd, R |-> R, X |-> X, rc |-> Res.rc, N |-> Res.N, ub |-> Res.ub])>>)
InvPlanner == (r >= 1 /\ BadAnswer) => (IF Collect THEN Emit ELSE FALSE)
=============================================================================
