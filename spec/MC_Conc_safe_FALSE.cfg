CONSTANTS Threads = {1, 2}
 SharedUsers = {}
 Nodes = {1, 2}
 Pre = FALSE
 Safe <- TT
SPECIFICATION HSpec
VIEW hview
INVARIANTS NoBad UniqueDesc NoRace
CHECK_DEADLOCK FALSE
