CONSTANTS MaxL = 0
 Collect = TRUE
INIT Init
NEXT Next
INVARIANTS InvPlanner
CHECK_DEADLOCK FALSE
