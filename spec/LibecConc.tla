------------------------------ MODULE LibecConc ------------------------------
(* Concurrency protocol of the process-wide state (C18), at the granularity   *)
(* of the shared accesses in src/erasurecode.c (registry: lookup, register,   *)
(* unregister, destroy) and src/builtin/rs_vand/rs_galois.c (ref-counted      *)
(* GF(2^16) tables).  Each read or write of a shared variable is one labelled  *)
(* step of an explicit program counter.                                        *)
(*   Threads      creator threads: create -> use -> destroy their own RS       *)
(*                instance (descriptor allocated under the write lock)         *)
(*   SharedUsers  threads that only look up and use the pre-existing           *)
(*                descriptor 1 (Pre = TRUE)                                     *)
(*   Safe         TRUE : lookups take the registry lock in shared mode, the    *)
(*                       allocator uses an unlocked internal lookup while it   *)
(*                       holds the lock exclusively, table init/deinit run     *)
(*                       under a mutex                                         *)
(*                FALSE: the pinned code's discipline (lookup without the      *)
(*                       lock although its own comment demands it; counter and *)
(*                       table pointers unsynchronised; idesc re-written after *)
(*                       the lock is released)                                 *)
(* SafeInTree (below) says which discipline /repo's current tree implements.   *)
EXTENDS Integers, Sequences, FiniteSets, TLC
CONSTANTS Threads, SharedUsers, Nodes, Safe, Pre
VARIABLES head, nxt, idesc, nstate, nextDesc, rwW, rwR, gfCnt, gfTab, gfMu,
          pc, cur, want, mine, found, bad, retTo
vars == <<head, nxt, idesc, nstate, nextDesc, rwW, rwR, gfCnt, gfTab, gfMu, pc, cur, want, mine, found, bad, retTo>>

SafeInTree == TRUE

All == Threads \cup SharedUsers
NodeOf(t) == CHOOSE n \in Nodes : n = t      \* each creator owns the node with its own id
PreNode == 100
AllNodes == Nodes \cup {PreNode}
InitWith(pre) ==
  /\ head = IF pre THEN PreNode ELSE 0
  /\ nxt = [n \in AllNodes |-> 0]
  /\ idesc = [n \in AllNodes |-> IF n = PreNode /\ pre THEN 1 ELSE 0]
  /\ nstate = [n \in AllNodes |-> IF n = PreNode /\ pre THEN "alloc" ELSE "unalloc"]
  /\ nextDesc = IF pre THEN 1 ELSE 0
  /\ rwW = 0 /\ rwR = {}
  /\ gfCnt = IF pre THEN 1 ELSE 0
  /\ gfTab = IF pre THEN "ready" ELSE "none"
  /\ gfMu = 0
  /\ pc = [t \in All |-> IF t \in Threads THEN "c_gf0" ELSE "l_lock"]
  /\ cur = [t \in All |-> -1] /\ want = [t \in All |-> IF t \in SharedUsers THEN 1 ELSE 0]
  /\ mine = [t \in All |-> 0] /\ found = [t \in All |-> 0]
  /\ bad = "" /\ retTo = [t \in All |-> "u_use"]
Init == InitWith(Pre)
Touch(n) == IF nstate[n] \notin {"alloc", "unlinked"} THEN "use-after-free" ELSE bad
Go(t, lbl) == pc' = [pc EXCEPT ![t] = lbl]
\* ---------- GF table init (rs_galois_init_tables) ----------
GfLock(t, lbl) == IF Safe THEN gfMu = 0 /\ gfMu' = t /\ Go(t, lbl) ELSE gfMu' = gfMu /\ Go(t, lbl)
C_gf0(t) == pc[t] = "c_gf0" /\ GfLock(t, "c_gf1")
            /\ UNCHANGED <<head, nxt, idesc, nstate, nextDesc, rwW, rwR, gfCnt, gfTab, cur, want, mine, found, bad, retTo>>
C_gf1(t) == pc[t] = "c_gf1" /\ gfCnt' = gfCnt + 1
            /\ Go(t, IF gfCnt > 0 THEN "c_gf4" ELSE "c_gf2")
            /\ UNCHANGED <<head, nxt, idesc, nstate, nextDesc, rwW, rwR, gfTab, gfMu, cur, want, mine, found, bad, retTo>>
C_gf2(t) == pc[t] = "c_gf2" /\ gfTab' = "building" /\ Go(t, "c_gf3")
            /\ UNCHANGED <<head, nxt, idesc, nstate, nextDesc, rwW, rwR, gfCnt, gfMu, cur, want, mine, found, bad, retTo>>
C_gf3(t) == pc[t] = "c_gf3" /\ gfTab' = "ready" /\ Go(t, "c_gf4")
            /\ UNCHANGED <<head, nxt, idesc, nstate, nextDesc, rwW, rwR, gfCnt, gfMu, cur, want, mine, found, bad, retTo>>
C_gf4(t) == pc[t] = "c_gf4" /\ gfMu' = (IF Safe THEN 0 ELSE gfMu) /\ Go(t, "c_mat")
            /\ UNCHANGED <<head, nxt, idesc, nstate, nextDesc, rwW, rwR, gfCnt, gfTab, cur, want, mine, found, bad, retTo>>
\* make_systematic_matrix uses the tables
C_mat(t) == pc[t] = "c_mat" /\ bad' = (IF gfTab # "ready" THEN "tables-not-ready" ELSE bad) /\ Go(t, "c_wr")
            /\ UNCHANGED <<head, nxt, idesc, nstate, nextDesc, rwW, rwR, gfCnt, gfTab, gfMu, cur, want, mine, found, retTo>>
\* ---------- register ----------
C_wr(t) == pc[t] = "c_wr" /\ rwW = 0 /\ rwR = {} /\ rwW' = t /\ Go(t, "c_ins")
            /\ UNCHANGED <<head, nxt, idesc, nstate, nextDesc, rwR, gfCnt, gfTab, gfMu, cur, want, mine, found, bad, retTo>>
C_ins(t) == pc[t] = "c_ins" /\ (LET n == NodeOf(t) IN
               /\ nstate' = [nstate EXCEPT ![n] = "alloc"]
               /\ nxt' = [nxt EXCEPT ![n] = head] /\ head' = n /\ mine' = [mine EXCEPT ![t] = n])
            /\ Go(t, "c_desc")
            /\ UNCHANGED <<idesc, nextDesc, rwW, rwR, gfCnt, gfTab, gfMu, cur, want, found, bad, retTo>>
LiveDescs == {idesc[n] : n \in {x \in AllNodes : nstate[x] = "alloc"}}
C_desc(t) == pc[t] = "c_desc" /\ (LET d == CHOOSE x \in (nextDesc+1)..(nextDesc+8) : x \notin LiveDescs /\ \A y \in (nextDesc+1)..(x-1) : y \in LiveDescs IN
               /\ nextDesc' = d /\ idesc' = [idesc EXCEPT ![mine[t]] = d] /\ want' = [want EXCEPT ![t] = d])
            /\ Go(t, "c_un")
            /\ UNCHANGED <<head, nxt, nstate, rwW, rwR, gfCnt, gfTab, gfMu, cur, mine, found, bad, retTo>>
\* after the create returns the thread calls encode: a lookup, then the backend's encode uses the tables
C_un(t) == pc[t] = "c_un" /\ rwW' = 0 /\ Go(t, IF Safe THEN "l_lock" ELSE "c_ret") /\ retTo' = [retTo EXCEPT ![t] = "u_use"]
            /\ UNCHANGED <<head, nxt, idesc, nstate, nextDesc, rwR, gfCnt, gfTab, gfMu, cur, want, mine, found, bad>>
\* pinned code only: instance->idesc = register(...) stores the descriptor again after the lock is released
C_ret(t) == pc[t] = "c_ret" /\ idesc' = [idesc EXCEPT ![mine[t]] = want[t]] /\ Go(t, "l_lock")
            /\ UNCHANGED <<head, nxt, nstate, nextDesc, rwW, rwR, gfCnt, gfTab, gfMu, cur, want, mine, found, bad, retTo>>
\* ---------- lookup (liberasurecode_backend_instance_get_by_desc); cur = -1: traversal not started ----------
\* Each step is what the thread does up to its next yield point; the event is logged after the step while the
\* lock that protects it is still held.
L_lock(t) == pc[t] = "l_lock" /\ (IF Safe THEN rwW = 0 /\ rwR' = rwR \cup {t} ELSE rwR' = rwR) /\ Go(t, "l_walk")
            /\ cur' = [cur EXCEPT ![t] = -1]
            /\ UNCHANGED <<head, nxt, idesc, nstate, nextDesc, rwW, gfCnt, gfTab, gfMu, want, mine, found, bad, retTo>>
NextOf(t) == IF cur[t] = -1 THEN head ELSE nxt[cur[t]]
NoMatchHere(t) == IF cur[t] = -1 THEN TRUE ELSE idesc[cur[t]] # want[t]
\* l_cmp: (compare the node just visited, no match,) read the pointer to the next node, which exists
L_cmp(t) == pc[t] = "l_walk" /\ NoMatchHere(t) /\ NextOf(t) # 0
            /\ bad' = (IF cur[t] # -1 THEN Touch(cur[t]) ELSE bad)
            /\ cur' = [cur EXCEPT ![t] = NextOf(t)] /\ Go(t, "l_walk")
            /\ UNCHANGED <<head, nxt, idesc, nstate, nextDesc, rwW, rwR, gfCnt, gfTab, gfMu, want, mine, found, retTo>>
\* l_unlock: the traversal ends (match, or end of list) and the lock is released
L_unlock(t) == pc[t] = "l_walk" /\ ~(NoMatchHere(t) /\ NextOf(t) # 0)
            /\ bad' = (IF cur[t] # -1 THEN Touch(cur[t]) ELSE bad)
            /\ found' = [found EXCEPT ![t] = IF cur[t] # -1 /\ idesc[cur[t]] = want[t] THEN cur[t] ELSE 0]
            /\ rwR' = rwR \ {t}
            /\ (IF retTo[t] = "cleanup" THEN Go(t, "l_lock") /\ retTo' = [retTo EXCEPT ![t] = IF t \in Threads THEN "d_gf0" ELSE "done"]
                ELSE Go(t, retTo[t]) /\ retTo' = retTo)
            /\ UNCHANGED <<head, nxt, idesc, nstate, nextDesc, rwW, gfCnt, gfTab, gfMu, cur, want, mine>>
\* ---------- use: the backend's encode reads the tables; afterwards encode_cleanup looks the descriptor up again ----------
U_use(t) == pc[t] = "u_use" /\ bad' = (IF found[t] = 0 THEN "lookup-missed-live-instance"
                                        ELSE IF nstate[found[t]] \notin {"alloc", "unlinked"} THEN "use-after-free"
                                        ELSE IF gfTab # "ready" THEN "tables-not-ready" ELSE bad)
            /\ Go(t, "l_lock") /\ retTo' = [retTo EXCEPT ![t] = "cleanup"]
            /\ UNCHANGED <<head, nxt, idesc, nstate, nextDesc, rwW, rwR, gfCnt, gfTab, gfMu, cur, want, mine, found>>
\* ---------- destroy ----------
D_gf0(t) == pc[t] = "d_gf0" /\ GfLock(t, "d_gf1")
            /\ UNCHANGED <<head, nxt, idesc, nstate, nextDesc, rwW, rwR, gfCnt, gfTab, cur, want, mine, found, bad, retTo>>
D_gf1(t) == pc[t] = "d_gf1" /\ gfCnt' = gfCnt - 1 /\ gfTab' = (IF gfCnt - 1 = 0 THEN "none" ELSE gfTab)
            /\ gfMu' = (IF Safe THEN 0 ELSE gfMu) /\ Go(t, "d_wr")
            /\ UNCHANGED <<head, nxt, idesc, nstate, nextDesc, rwW, rwR, cur, want, mine, found, bad, retTo>>
D_wr(t) == pc[t] = "d_wr" /\ rwW = 0 /\ rwR = {} /\ rwW' = t /\ Go(t, "d_rm")
            /\ UNCHANGED <<head, nxt, idesc, nstate, nextDesc, rwR, gfCnt, gfTab, gfMu, cur, want, mine, found, bad, retTo>>
\* SLIST_REMOVE walks from the head: the predecessor is a node that is still LINKED (state "alloc"); a node that has
\* been unlinked but not yet freed keeps a stale next pointer and must not be mistaken for the predecessor
D_rm(t) == pc[t] = "d_rm" /\ (LET n == mine[t] IN
              IF head = n THEN head' = nxt[n] /\ nxt' = nxt
              ELSE (LET p == CHOOSE q \in AllNodes : nstate[q] = "alloc" /\ nxt[q] = n IN
                   nxt' = [nxt EXCEPT ![p] = nxt[n]] /\ head' = head))
            /\ nstate' = [nstate EXCEPT ![mine[t]] = "unlinked"]
            /\ Go(t, "d_un")
            /\ UNCHANGED <<idesc, nextDesc, rwW, rwR, gfCnt, gfTab, gfMu, cur, want, mine, found, bad, retTo>>
D_un(t) == pc[t] = "d_un" /\ rwW' = 0 /\ Go(t, "d_free")
            /\ UNCHANGED <<head, nxt, idesc, nstate, nextDesc, rwR, gfCnt, gfTab, gfMu, cur, want, mine, found, bad, retTo>>
D_free(t) == pc[t] = "d_free" /\ nstate' = [nstate EXCEPT ![mine[t]] = "freed"] /\ Go(t, "done")
            /\ UNCHANGED <<head, nxt, idesc, nextDesc, rwW, rwR, gfCnt, gfTab, gfMu, cur, want, mine, found, bad, retTo>>
Step(t) == \/ C_gf0(t) \/ C_gf1(t) \/ C_gf2(t) \/ C_gf3(t) \/ C_gf4(t) \/ C_mat(t) \/ C_wr(t) \/ C_ins(t) \/ C_desc(t) \/ C_un(t) \/ C_ret(t)
           \/ L_lock(t) \/ L_cmp(t) \/ L_unlock(t) \/ U_use(t)
           \/ D_gf0(t) \/ D_gf1(t) \/ D_wr(t) \/ D_rm(t) \/ D_un(t) \/ D_free(t)
\* the step a yield event of the real library names (hook label = action)
ActByLabel(t, p) ==
   \/ (p = "c_gf0" /\ C_gf0(t)) \/ (p = "c_gf1" /\ C_gf1(t)) \/ (p = "c_gf2" /\ C_gf2(t)) \/ (p = "c_gf3" /\ C_gf3(t))
   \/ (p = "c_gf4" /\ C_gf4(t)) \/ (p = "c_mat" /\ C_mat(t)) \/ (p = "c_wr" /\ C_wr(t)) \/ (p = "c_ins" /\ C_ins(t))
   \/ (p = "c_desc" /\ C_desc(t)) \/ (p = "c_un" /\ C_un(t)) \/ (p = "l_lock" /\ L_lock(t)) \/ (p = "l_cmp" /\ L_cmp(t))
   \/ (p = "l_unlock" /\ L_unlock(t)) \/ (p = "u_use" /\ U_use(t)) \/ (p = "d_gf0" /\ D_gf0(t)) \/ (p = "d_gf1" /\ D_gf1(t))
   \/ (p = "d_wr" /\ D_wr(t)) \/ (p = "d_rm" /\ D_rm(t)) \/ (p = "d_un" /\ D_un(t)) \/ (p = "d_free" /\ D_free(t))
\* locks a thread holds when the event of a step is logged (after the step, before any release), safe discipline:
\* 1 = registry lock shared, 2 = registry lock exclusive, 4 = GF-table mutex
HeldAt(p) == CASE p \in {"l_lock", "l_cmp", "l_unlock"} -> 1
               [] p \in {"c_wr", "c_ins", "c_desc", "c_un", "d_wr", "d_rm", "d_un"} -> 2
               [] p \in {"c_gf0", "c_gf1", "c_gf2", "c_gf3", "c_gf4", "d_gf0", "d_gf1"} -> 4
               [] OTHER -> 0
Next == \E t \in All : Step(t)
Spec == Init /\ [][Next]_vars

\* ---------- properties ----------
NoBad == bad = ""
UniqueDesc == \A a, b \in AllNodes : (nstate[a] = "alloc" /\ nstate[b] = "alloc" /\ a # b /\ idesc[a] # 0 /\ idesc[b] # 0) => idesc[a] # idesc[b]
\* data race: two threads whose next steps access the same shared variable, at least one writing, with no lock
\* held exclusively by one and (exclusively or shared) by the other
Acc(t) == CASE pc[t] = "l_walk" -> IF cur[t] = -1 THEN {<<"head","R">>} ELSE {<<"node", cur[t], "R">>}
            [] pc[t] = "c_ins" -> {<<"head","W">>}
            [] pc[t] = "c_desc" -> {<<"node", mine[t], "W">>, <<"head","R">>}
            [] pc[t] = "c_ret" -> {<<"node", mine[t], "W">>}
            [] pc[t] = "d_rm" -> {<<"head","W">>} \cup {<<"node", q, "W">> : q \in {x \in AllNodes : nstate[x] = "alloc" /\ nxt[x] = mine[t]}}
            [] pc[t] \in {"c_gf1","d_gf1"} -> {<<"gfcnt","W">>}
            [] pc[t] \in {"c_gf2","c_gf3"} -> {<<"gftab","W">>}
            [] pc[t] \in {"c_mat","u_use"} -> {<<"gftab","R">>}
            [] OTHER -> {}
VarOf(a) == IF a[1] = "node" THEN <<a[1], a[2]>> ELSE <<a[1]>>
KindOf(a) == a[Len(a)]
Excl(t) == (IF rwW = t THEN {"rw"} ELSE {}) \cup (IF gfMu = t THEN {"gf"} ELSE {})
Shared(t) == IF t \in rwR THEN {"rw"} ELSE {}
\* a thread that holds a reference to the GF tables through its own live instance reads them without a lock: that is
\* ordered after the table's publication by the mutex hand-over of its own init, and before their release by its own deinit
Protected(t1, t2) ==
   \/ Excl(t1) \cap (Excl(t2) \cup Shared(t2)) # {}
   \/ Excl(t2) \cap (Excl(t1) \cup Shared(t1)) # {}
GfReaderSafe(t1, a1, t2, a2) ==
   Safe /\ VarOf(a1) = <<"gftab">> /\ ((KindOf(a1) = "R" /\ gfCnt > 1) \/ (KindOf(a2) = "R" /\ gfCnt > 1))
NoRace == \A t1, t2 \in All : t1 # t2 =>
            \A a1 \in Acc(t1), a2 \in Acc(t2) :
               (VarOf(a1) = VarOf(a2) /\ (KindOf(a1) = "W" \/ KindOf(a2) = "W")) => (Protected(t1, t2) \/ GfReaderSafe(t1, a1, t2, a2))
=============================================================================
