----------------------------- MODULE CodeOracles -----------------------------
(* Tolerance and sufficiency predicates shared by the trace specifications.   *)
EXTENDS XorDecoder, IsaL
IsXorCfg(be, k, m, hd) == be = 3 /\ HasTable(k, m, hd)
\* the tolerance the properties speak of (C01, C03, C19)
TolBy(be, k, m, hd, missing) ==
   CASE be = 3 -> IsXorCfg(be, k, m, hd) /\ Cardinality(missing) < hd
     [] be = 6 -> Cardinality(missing) <= m
     [] be \in {4, 7} -> Cardinality(missing) <= m
     [] OTHER -> FALSE
\* ISA-L: a refusal within |missing| <= m is allowed exactly when the survivor rows are singular
ExcusedBy(be, k, m, missing) == be \in {4, 7} /\ ~SurvivorsInvertible(be, k, m, missing)
RsNeededOKBy(k, m, R, X, Ns) ==
   /\ NoDup(Ns) /\ Len(Ns) = k
   /\ \A q \in 1..Len(Ns) : Ns[q] \in 0..(k+m-1) /\ Ns[q] \notin Range(R) /\ Ns[q] \notin Range(X)
=============================================================================
