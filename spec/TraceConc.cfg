CONSTANTS Threads = {1, 2, 3}
 SharedUsers = {11, 12}
 Nodes = {1, 2, 3}
 Pre = TRUE
 Safe <- TT
SPECIFICATION TSpec
POSTCONDITION Accepted
CHECK_DEADLOCK FALSE
