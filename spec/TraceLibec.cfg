CONSTANTS MaxInt = 2147483647
 MinInt <- MinIntReal
SPECIFICATION Spec
POSTCONDITION Accepted
CHECK_DEADLOCK FALSE
