------------------------------- MODULE MC_Conc -------------------------------
(* Model-checking harness for LibecConc, and source of the schedules replayed  *)
(* on the real threads: with EmitPaths every generated transition prints the   *)
(* sequence of thread ids that leads to it (edge cover of the state graph).    *)
EXTENDS LibecConc, Json
\* the discipline the current tree implements (bound to the code by trace validation / ThreadSanitizer)
TreeSafe == SafeInTree
FF == FALSE
TT == TRUE
VARIABLE hist
HInit == Init /\ hist = <<>>
HNext == \E t \in All : Step(t) /\ hist' = Append(hist, t)
HSpec == HInit /\ [][HNext]_<<vars, hist>>
hview == vars
Emit == PrintT("EDGE " \o ToJson(hist'))
=============================================================================
