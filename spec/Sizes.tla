------------------------------- MODULE Sizes -------------------------------
(* Size arithmetic of the front end (C08).                                    *)
EXTENDS Integers
\* bits per code word of each executable backend (element size)
WordBits(be) == CASE be = 3 -> 32 [] be = 6 -> 16 [] be = 4 -> 8 [] be = 7 -> 8 [] be = 0 -> 32 [] OTHER -> 8
WordBytes(be) == WordBits(be) \div 8
AlignMultiple(be, k) == k * WordBytes(be)
\* smallest multiple of k * wordbytes that is >= len
Aligned(be, k, len) == LET a == AlignMultiple(be, k) IN ((len + a - 1) \div a) * a
FragSize(be, k, len) == Aligned(be, k, len) \div k
MinEncode(be, k) == Aligned(be, k, 1)
=============================================================================
