------------------------------ MODULE TraceWire ------------------------------
(* Trace validation of wire-format and validation events recorded from the    *)
(* real library against Wire / CRC32 / Sizes  (C07 - C12).                     *)
EXTENDS Wire, Json, IOUtils
Tr == ndJsonDeserialize(IOEnv.TRACE)
VARIABLE l
Has(ev, f) == f \in DOMAIN ev
Bump(i) == TLCSet(i, TLCGet(i) + 1)
ASSUME \A i \in 1..14 : TLCSet(i, 0)

Tup(s) == [i \in 1..Len(s) |-> s[i]]
LegacyOn(s) == s \notin {"(unset)", "", "0"}
EBADHEADER == -207

\* ---- encode output, byte for byte (C07, C10) and sizes (C08) ----
EncViol(ev) ==
   LET n == ev.k + ev.m
       bs == FragSize(ev.be, ev.k, ev.len)
       legacy == LegacyOn(ev.legacy)
   IN IF ev.rc # 0 THEN {"C07 encode of an accepted configuration failed"} ELSE
      (IF ev.flen # HdrLen + bs THEN {"C08 fragment length differs from header + aligned length / k"} ELSE {})
   \cup (IF ev.unch # 1 THEN {"C15 encode modified its input"} ELSE {})
   \cup (IF ev.slice # 1 THEN {"C07 data fragment does not carry its slice of the input"} ELSE {})
   \cup (IF Has(ev, "data") /\ Has(ev, "frags") /\ ev.flen = HdrLen + bs /\
            \E i \in 0..(n-1) : Tup(ev.frags[i+1]) # Fragment(ev.be, ev.k, ev.m, ev.hd, ev.ct, Tup(ev.data), i, Tup(ev.libver), Tup(ev.bever), legacy)
         THEN {"C07 fragment bytes differ from the independent serializer"} ELSE {})
   \cup (IF ~Has(ev, "data") /\ Has(ev, "frags") /\ Has(ev, "pcrc") /\
            \E i \in 0..(n-1) : Tup(ev.frags[i+1]) #
                 Header(ev.be, i, bs, ev.len, ev.ct,
                        IF ev.ct # 2 THEN <<0,0>> ELSE IF legacy THEN Tup(ev.pcrca[i+1]) ELSE Tup(ev.pcrc[i+1]),
                        Tup(ev.libver), Tup(ev.bever), legacy)
         THEN {"C07 header bytes differ from the independent serializer"} ELSE {})
\* fragments rebuilt by reconstruct while the switch has another value than when the stripe was encoded: every byte is
\* what the serializer gives for the switch in force at the reconstruct call (C10: writers = encode and reconstruct)
RecBViol(ev) ==
   LET n == ev.k + ev.m  legacy == LegacyOn(ev.legacy) IN
   IF Has(ev, "supsame") /\ ev.supsame # 1 THEN {"C03 supplied destination not returned unchanged (after the legacy switch changed)"}
   ELSE IF ev.rc # 0 THEN {"C03 reconstruct of a single missing fragment failed"}
   ELSE IF \E i \in 0..(n-1) : Tup(ev.frags[i+1]) # Fragment(ev.be, ev.k, ev.m, ev.hd, ev.ct, Tup(ev.data), i, Tup(ev.libver), Tup(ev.bever), legacy)
        THEN {"C10 reconstructed fragment differs from the serializer under the switch in force at the call"} ELSE {}
SizeViol(ev) ==
     (IF ev.aligned # Aligned(ev.be, ev.k, ev.len) THEN {"C08 aligned-size query"} ELSE {})
\cup (IF ev.frag # FragSize(ev.be, ev.k, ev.len) THEN {"C08 fragment-size query differs from what encode produces"} ELSE {})
\cup (IF ev.min # MinEncode(ev.be, ev.k) THEN {"C08 minimum-encode-size query"} ELSE {})
MetaOwnViol(ev) ==
     (IF ev.mrc # 0 THEN {"C09 header written by encode refused"} ELSE {})
\cup (IF ev.finv # 0 THEN {"C12 fragment just encoded does not validate"} ELSE {})
\cup (IF ev.mrc = 0 /\ (Tup(ev.md_idx) # <<0, ev.fi>> \/ ev.md_mis # 0 \/ ev.md_be # ev.be \/ ev.md_ct # ev.ct)
      THEN {"C10 metadata of a fresh fragment"} ELSE {})

\* ---- mutated headers (C09, C10, C11, C12) ----
MdOf(ev) == [idx |-> Tup(ev.md_idx), size |-> Tup(ev.md_size), bms |-> Tup(ev.md_bms), orig |-> Tup(ev.md_orig),
             ct |-> ev.md_ct, ck |-> Tup(ev.md_ck), beid |-> ev.md_be, bever |-> Tup(ev.md_bever), mis |-> ev.md_mis]
InstOf(ev) == [be |-> ev.be, k |-> ev.k, m |-> ev.m, bever |-> Tup(ev.bever), libver |-> Tup(ev.libver)]
HdrViol(ev) ==
   LET h == Tup(ev.hdr)  pay == Tup(ev.pay)
       acc == HeaderAccepted(h)
       host == HostOrder(h)
       geom == SubSeq(h, 1, 20) = SubSeq(Tup(ev.ohdr), 1, 20)
       view == MetadataView(h, pay)
       inv == FragmentInvalid(InstOf(ev), h, pay)
   IN  (IF (ev.mrc = 0) # acc THEN {"C09 metadata query accepts exactly the valid headers"} ELSE {})
   \cup (IF ~acc /\ ev.mrc # EBADHEADER THEN {"C09 bad header must give the bad-header error"} ELSE {})
   \cup (IF (ev.hinv = 0) # acc THEN {"C09 header predicate"} ELSE {})
   \cup (IF ev.mrc = 0 /\ acc /\ (MdOf(ev).idx # view.idx \/ MdOf(ev).size # view.size \/ MdOf(ev).bms # view.bms
                                   \/ MdOf(ev).orig # view.orig \/ MdOf(ev).ck # view.ck \/ MdOf(ev).beid # view.beid
                                   \/ MdOf(ev).bever # view.bever
                                   \/ (Has(ev, "md_cks") /\ [i \in 1..8 |-> Tup(ev.md_cks[i])] # CksView(h)))
         THEN {IF host THEN "C10 metadata fields differ from the header" ELSE "C11 opposite-endian fields read with a different meaning"} ELSE {})
   \cup (IF ev.mrc = 0 /\ acc /\ MdOf(ev).ct # view.ct
         THEN {IF host THEN "C10 checksum type differs from the header" ELSE "C11 opposite-endian checksum type read with a different meaning"} ELSE {})
   \cup (IF ev.mrc = 0 /\ acc /\ MdOf(ev).ct = view.ct /\ MdOf(ev).mis # view.mis
         THEN {IF host THEN "C10 payload checksum mismatch not reported exactly" ELSE "C11 opposite-endian payload mismatch detection differs"} ELSE {})
   \cup (IF (~acc \/ ~host) /\ Has(ev, "rs0") /\ ((ev.rs0 # 999 /\ ev.rs0 # EBADHEADER) \/ (ev.rsl # 999 /\ ev.rsl # EBADHEADER))
         THEN {"C09 reconstruct with a supplied destination must still refuse a bad header anywhere in the list"} ELSE {})
   \cup (IF (~acc \/ ~host) /\ Has(ev, "rfew1") /\ (ev.rfew1 # EBADHEADER \/ ev.rfew2 # EBADHEADER)
         THEN {"C09 reconstruct with too few fragments must still refuse a bad header with the bad-header error"} ELSE {})
   \cup (IF acc /\ host /\ geom /\ Has(ev, "rs0") /\ ev.rs0 # 999 /\ ev.be # 0 /\ (ev.rs0 # 0 \/ ev.rs0same # 1 \/ ev.rsl # 0 \/ ev.rslsame # 1)
         THEN {"C03 supplied destination not returned unchanged"} ELSE {})
   \cup (IF ~acc \/ ~host THEN (IF (ev.drc # 999 /\ ev.drc # EBADHEADER) \/ (ev.rrc # 999 /\ ev.rrc # EBADHEADER)
                                THEN {"C09 decode/reconstruct must refuse the header with the bad-header error"} ELSE {})
         ELSE IF geom /\ ev.drc # 999 /\ ev.paysame = 1 /\ (ev.drc # 0 \/ ev.dmatch # 1 \/ (ev.be # 0 /\ (ev.rrc # 0 \/ ev.rsame # 1)))
              THEN {"C09 acceptable host-order header refused by decode/reconstruct"} ELSE {})
   \cup (IF (ev.finv # 0) # inv /\ ~FragmentInvalidDontCare(InstOf(ev), h) THEN {"C12 fragment validation verdict"} ELSE {})
   \cup (IF ev.unch # 1 THEN {"C09 validation modified the fragment"} ELSE {})
   \* every call made on the mutated fragment (metadata query, validation, decode, reconstruct - outputs handed back)
   \* returns the ledger to where it was: error paths after buffers were prepared included
   \cup (IF Has(ev, "lh0") /\ ev.lh1 # ev.lh0 THEN {"C16 calls on a mutated fragment changed the live block count (error path kept or over-released memory)"} ELSE {})
FinvViol(ev) ==
   LET h == Tup(ev.hdr) IN
   IF (ev.finv # 0) # FragmentInvalid(InstOf(ev), h, Tup(ev.pay)) /\ ~FragmentInvalidDontCare(InstOf(ev), h)
   THEN {"C12 fragment validation verdict (foreign instance)"} ELSE {}
VsViol(ev) ==
   LET hs == ev.hdrs
       inst == [be |-> ev.be, k |-> ev.k, m |-> ev.m, bever |-> Tup(ev.bever)]
       fails == \E i \in 1..Len(hs) : StripeFails(inst, Tup(hs[i]))
       dc == \E i \in 1..Len(hs) : StripeDontCare(Tup(hs[i]))
   IN IF dc THEN {} ELSE IF (ev.rc < 0) # fails \/ (~fails /\ ev.rc # 0) THEN {"C12 stripe metadata verification verdict"} ELSE {}
CrcAltViol(ev) == IF Tup(ev.crc) # Crc32Alt(Tup(ev.bytes)) THEN {"C10 historical CRC-32 differs from its definition"} ELSE {}
LayoutViol(ev) ==
   IF ev.sizeof_header # 80 \/ ev.sizeof_meta # 59 \/ ev.o_idx # OIdx \/ ev.o_size # OSize \/ ev.o_bms # OBms \/ ev.o_orig # OOrig
      \/ ev.o_ct # OCt \/ ev.o_ck # OCk \/ ev.o_mis # OMis \/ ev.o_beid # OBeId \/ ev.o_bever # OBeVer \/ ev.o_magic # OMagic
      \/ ev.o_libver # OLibVer \/ ev.o_mck # OMetaCrc \/ ev.o_pad # OPad \/ Tup(ev.magic) # Magic
   THEN {"C07 compile-time layout of the public header differs from the golden offsets"} ELSE {}

Viol(ev) ==
   CASE ev.e = "EncB" -> EncViol(ev)
     [] ev.e = "RecB" -> RecBViol(ev)
     [] ev.e = "Size" -> SizeViol(ev)
     [] ev.e = "SizeDead" -> IF ev.aligned >= 0 \/ ev.frag >= 0 \/ ev.min >= 0 THEN {"C08 size query on an unknown descriptor must fail"} ELSE {}
     [] ev.e = "MetaOwn" -> MetaOwnViol(ev)
     [] ev.e = "VsOwn" -> IF ev.rc # 0 THEN {"C12 stripe just encoded does not verify"} ELSE {}
     [] ev.e = "Hdr" -> HdrViol(ev)
     [] ev.e = "Finv" -> FinvViol(ev)
     [] ev.e = "Vs" -> VsViol(ev)
     [] ev.e = "CrcAlt" -> CrcAltViol(ev)
     [] ev.e = "Layout" -> LayoutViol(ev)
     [] ev.e = "Fault" -> {"fault: " \o ev.how}
     [] ev.e = "Create" -> IF ev.rc <= 0 /\ (~Has(ev, "wnat") \/ ev.wnat = 1) THEN {"create failed in a sweep"} ELSE {}
     [] ev.e = "Enc" -> IF ev.rc # 0 THEN {"encode failed in a sweep"} ELSE {}
     [] OTHER -> {}
Count(ev) ==
   /\ Bump(1)
   /\ (ev.e = "EncB" => Bump(2) /\ (Has(ev, "data") => Bump(3)))
   /\ (ev.e = "Size" => Bump(4))
   /\ (ev.e = "Hdr" => Bump(5) /\ (ev.mrc # 0 => Bump(6)) /\ (ev.finv # 0 => Bump(7)) /\ (~HostOrder(Tup(ev.hdr)) => Bump(8)))
   /\ (ev.e = "Finv" => Bump(9))
   /\ (ev.e = "Vs" => Bump(10))
   /\ (ev.e = "CrcAlt" => Bump(11))
   /\ (ev.e = "MetaOwn" => Bump(12))
   /\ (ev.e = "Fault" => Bump(13))
   /\ (ev.e = "SizeDead" => Bump(14))
Init == l = 1
Next == /\ l <= Len(Tr)
        /\ LET ev == Tr[l] v == Viol(ev) IN
             /\ (v # {} => PrintT("VIOL " \o ToString(l) \o " " \o ToJson(v)))
             /\ Count(ev)
        /\ l' = l + 1
Spec == Init /\ [][Next]_l
Accepted == /\ PrintT("COUNTS " \o ToJson([i \in 1..14 |-> TLCGet(i)]))
            /\ TLCGet("stats").diameter = Len(Tr) + 1
=============================================================================
