CONSTANTS MaxL = 99
 Collect = TRUE
INIT Init
NEXT Next
INVARIANTS InvPlanner
CHECK_DEADLOCK FALSE
