------------------------------ MODULE MC_RSVand ------------------------------
(* C04: the matrix the code computes is the canonical closed form for every   *)
(* shape; MDS and reconstruct-row algebra (C03) exhaustively on small n.      *)
EXTENDS RSVand
CONSTANTS NMax,        \* shapes with k+m <= NMax are checked for Systematic = Gen
          OnlyFull,    \* TRUE: only the shapes (k, NMax-k) (every smaller m is a row-prefix of these)
          NAlg         \* MDS + reconstruct algebra for k+m <= NAlg
VARIABLES k, m
Init == /\ k \in 1..(NMax-1) /\ m \in 1..(NMax-1) /\ k + m <= NMax
        /\ (OnlyFull => (k + m = NMax \/ k + m <= NAlg))
Next == UNCHANGED <<k, m>>
\* premise 1: every normaliser L_j(k) is non-zero
InvLNonZero == \A j \in 0..(k-1) : L(k, j, k) # 0
\* premise 2 + conclusion: the transcription of make_systematic_matrix never swaps rows, never meets a zero pivot,
\* and yields exactly the closed form (identity on top, Coef below); first parity row all ones
InvClosedForm == LET S == Systematic(k, m) IN S.ok /\ ~S.swapped /\ S.M = Gen(k, m)
InvFirstParityXor == \A j \in 0..(k-1) : Coef(k, k, j) = 1
InvMDS == (k + m <= NAlg) => MDS(k, m)
InvRecon == (k + m <= NAlg) =>
   \A S \in SUBSET (0..(k+m-1)) : (Cardinality(S) <= m /\ S # {}) => \A d \in S : ReconExact(k, m, S, d)
=============================================================================
