---- MODULE t1 ----
EXTENDS IsaL
ASSUME PrintT(<<"mul", G8Mul(2, 141), G8Mul(3,7), G8Inv(2), G8Mul(2, G8Inv(2)), G8Mul(77, G8Inv(77))>>)
ASSUME PrintT(<<"rows", RsRow(4, 5), CauchyRow(3,4)>>)
ASSUME PrintT(<<"inv", SurvivorsInvertible(4, 4, 2, {0,1}), SurvivorsInvertible(4, 9, 7, {0,1,2,3,4,5,6}), SurvivorsInvertible(7, 9, 7, {0,1,2,3,4,5,6})>>)
VARIABLE x
Init == x = 0
Next == UNCHANGED x
====
