---- MODULE t1 ----
EXTENDS Wire
ASSUME PrintT(<<"frag", Fragment(6, 2, 1, 1, 2, <<1,2,3,4,5>>, 2, <<1, 1540>>, <<1,0>>, FALSE)>>)
ASSUME PrintT(<<"acc", HeaderAccepted(Fragment(6, 2, 1, 1, 2, <<1,2,3,4,5>>, 2, <<1, 1540>>, <<1,0>>, FALSE))>>)
VARIABLE x
Init == x = 0
Next == UNCHANGED x
====
