------------------------------ MODULE TraceConc ------------------------------
(* Trace validation of the yield events recorded from real threads running in *)
(* the library (harness/drv_sched.c, hooks guarded by LIBERASURECODE_VERIF)   *)
(* against LibecConc under the safe discipline: every event must be the step  *)
(* the model allows that thread to take next (mutual exclusion, lookup under  *)
(* the shared lock, table init under the mutex), with exactly the locks the   *)
(* thread really holds; descriptors handed out must be the model's.           *)
EXTENDS LibecConc, Json, IOUtils
Tr == ndJsonDeserialize(IOEnv.TRACE)
VARIABLES l, skip
tvars == <<vars, l, skip>>
Bump(i) == TLCSet(i, TLCGet(i) + 1)
ASSUME \A i \in 1..6 : TLCSet(i, 0)
Report(why) == PrintT("VIOL " \o ToString(l) \o " " \o ToJson({why}))
TT == TRUE
TInit == l = 1 /\ skip = TRUE /\ InitWith(FALSE)
TNext ==
   /\ l <= Len(Tr) /\ l' = l + 1
   /\ LET ev == Tr[l] IN
      CASE ev.e = "Scn" ->
             /\ Bump(1) /\ skip' = FALSE
             /\ head' = (IF ev.pre = 1 THEN PreNode ELSE 0)
             /\ nxt' = [n \in AllNodes |-> 0]
             /\ idesc' = [n \in AllNodes |-> IF n = PreNode /\ ev.pre = 1 THEN 1 ELSE 0]
             /\ nstate' = [n \in AllNodes |-> IF n = PreNode /\ ev.pre = 1 THEN "alloc" ELSE "unalloc"]
             /\ nextDesc' = (IF ev.pre = 1 THEN 1 ELSE 0)
             /\ rwW' = 0 /\ rwR' = {} /\ gfCnt' = (IF ev.pre = 1 THEN 1 ELSE 0) /\ gfTab' = (IF ev.pre = 1 THEN "ready" ELSE "none") /\ gfMu' = 0
             /\ pc' = [t \in All |-> IF t \in Threads THEN "c_gf0" ELSE "l_lock"]
             /\ cur' = [t \in All |-> -1] /\ want' = [t \in All |-> IF t \in SharedUsers THEN 1 ELSE 0]
             /\ mine' = [t \in All |-> 0] /\ found' = [t \in All |-> 0] /\ bad' = "" /\ retTo' = [t \in All |-> "u_use"]
             /\ (ev.pre = 1 /\ ev.shared # 1 => Report("C18 pre-existing instance did not get descriptor 1"))
        [] ev.e = "Y" ->
             IF skip THEN UNCHANGED <<vars, skip>>
             ELSE IF ev.t \notin All THEN Report("C18 event of an unknown thread") /\ UNCHANGED <<vars, skip>>
             ELSE IF ENABLED ActByLabel(ev.t, ev.p)
                  THEN /\ ActByLabel(ev.t, ev.p) /\ Bump(2) /\ UNCHANGED skip
                       /\ (ev.h # HeldAt(ev.p) => Report("C18 step " \o ev.p \o " performed without the locks the protocol requires"))
                       /\ (bad' # "" /\ bad = "" => Report("C18 " \o bad'))
                  ELSE /\ Report("C18 step " \o ev.p \o " of thread " \o ToString(ev.t) \o " is not allowed by the protocol in this state (pc = " \o pc[ev.t] \o ")")
                       /\ skip' = TRUE /\ UNCHANGED vars
        [] ev.e = "Desc" ->
             /\ UNCHANGED <<vars, skip>>
             /\ (~skip /\ ev.d # want[ev.t] => Report("C18 descriptor handed to a thread differs from the sequential allocation"))
             /\ (~skip /\ \E u \in Threads : u # ev.t /\ nstate[NodeOf(u)] = "alloc" /\ idesc[NodeOf(u)] = ev.d => Report("C18 two live instances share a descriptor"))
        [] ev.e = "End" ->
             /\ UNCHANGED <<vars, skip>> /\ Bump(3)
             /\ (~skip /\ \E t \in All : pc[t] \notin {"done", "c_gf0", "l_lock"} => Report("C18 a thread did not complete its protocol"))
             /\ (~skip /\ (rwW # 0 \/ rwR # {} \/ gfMu # 0) => Report("C18 a lock is still held at the end of the scenario"))
        [] ev.e = "Diverge" -> UNCHANGED <<vars, skip>> /\ Report("C18 the code blocks where the protocol allows the step (schedule replay diverged)")
        [] ev.e = "ResultErr" -> UNCHANGED <<vars, skip>> /\ Report("C18 a thread's result differs from the sequential result")
        [] OTHER -> UNCHANGED <<vars, skip>>
TSpec == TInit /\ [][TNext]_tvars
Accepted == /\ PrintT("COUNTS " \o ToJson([i \in 1..6 |-> TLCGet(i)]))
            /\ TLCGet("stats").diameter = Len(Tr) + 1
=============================================================================
