------------------------------ MODULE TraceConc ------------------------------
(* Trace validation of the yield events recorded from real threads running in *)
(* the library (harness/drv_sched.c, hooks guarded by LIBERASURECODE_VERIF)   *)
(* against LibecConc under the safe discipline: every event must be the step  *)
(* the model allows that thread to take next (mutual exclusion, lookup under  *)
(* the shared lock, table init under the mutex), with exactly the locks the   *)
(* thread really holds; descriptors handed out must be the model's.           *)
EXTENDS LibecConc, Json, IOUtils
Tr == ndJsonDeserialize(IOEnv.TRACE)
VARIABLES l, skip,
          holds,      \* thread -> descriptor it was handed and has not unlinked yet (0: none); independent of the model
          shared1,    \* the pre-existing instance with descriptor 1 is live in this scenario
          skip0       \* before the first scenario header
tvars == <<vars, l, skip, holds, shared1, skip0>>
HeldOK(h, p) == CASE HeldAt(p) = 1 -> h \in {1, 2, 3, 5, 6, 7}
                  [] HeldAt(p) = 2 -> h \in {2, 3, 6, 7}
                  [] HeldAt(p) = 4 -> h \in {4, 5, 6, 7}
                  [] OTHER -> TRUE
Bump(i) == TLCSet(i, TLCGet(i) + 1)
ASSUME \A i \in 1..6 : TLCSet(i, 0)
Report(why) == PrintT("VIOL " \o ToString(l) \o " " \o ToJson({why}))
TT == TRUE
TInit == l = 1 /\ skip = TRUE /\ skip0 = TRUE /\ shared1 = FALSE /\ holds = [t \in All |-> 0] /\ InitWith(FALSE)
TNext ==
   /\ l <= Len(Tr) /\ l' = l + 1
   /\ LET ev == Tr[l] IN
      CASE ev.e = "Scn" ->
             /\ Bump(1) /\ skip' = FALSE /\ skip0' = FALSE /\ shared1' = (ev.pre = 1) /\ holds' = [t \in All |-> 0]
             /\ head' = (IF ev.pre = 1 THEN PreNode ELSE 0)
             /\ nxt' = [n \in AllNodes |-> 0]
             /\ idesc' = [n \in AllNodes |-> IF n = PreNode /\ ev.pre = 1 THEN 1 ELSE 0]
             /\ nstate' = [n \in AllNodes |-> IF n = PreNode /\ ev.pre = 1 THEN "alloc" ELSE "unalloc"]
             /\ nextDesc' = (IF ev.pre = 1 THEN 1 ELSE 0)
             /\ rwW' = 0 /\ rwR' = {} /\ gfCnt' = (IF ev.pre = 1 THEN 1 ELSE 0) /\ gfTab' = (IF ev.pre = 1 THEN "ready" ELSE "none") /\ gfMu' = 0
             /\ pc' = [t \in All |-> IF t \in Threads THEN "c_gf0" ELSE "l_lock"]
             /\ cur' = [t \in All |-> -1] /\ want' = [t \in All |-> IF t \in SharedUsers THEN 1 ELSE 0]
             /\ mine' = [t \in All |-> 0] /\ found' = [t \in All |-> 0] /\ bad' = "" /\ retTo' = [t \in All |-> "u_use"]
             /\ (ev.pre = 1 /\ ev.shared # 1 => Report("C18 pre-existing instance did not get descriptor 1"))
        [] ev.e = "Y" ->
             \* (a) lock discipline, judged from the event alone: the step named by the hook is performed with the lock
             \*     that protects what it touches (more locks than needed are fine; the exclusive lock serves a reader)
             /\ (~skip0 /\ ev.t \in All /\ ~HeldOK(ev.h, ev.p) =>
                    Report("C18 step " \o ev.p \o " performed without the locks the protocol requires"))
             \* (b) the protocol model follows the thread as long as the code has the model's step structure; when it has
             \*     not (a reordering that keeps the discipline is not a violation of C18) that is DRIFT: the model-based
             \*     part of this scenario is lost, (a), the descriptor rule and the threads' own result checks remain
             /\ IF skip \/ ev.t \notin All THEN UNCHANGED <<vars, skip>>
                ELSE IF ENABLED ActByLabel(ev.t, ev.p)
                     THEN /\ ActByLabel(ev.t, ev.p) /\ Bump(2) /\ UNCHANGED skip
                          /\ (bad' # "" /\ bad = "" => Report("C18 " \o bad'))
                     ELSE /\ PrintT("DRIFT " \o ToString(l)) /\ Bump(4)
                          /\ skip' = TRUE /\ UNCHANGED vars
             /\ (IF ev.p = "d_rm" /\ ev.t \in All THEN holds' = [holds EXCEPT ![ev.t] = 0] ELSE UNCHANGED holds)
             /\ UNCHANGED <<shared1, skip0>>
        [] ev.e = "Desc" ->
             /\ UNCHANGED <<vars, skip, shared1, skip0>>
             /\ holds' = [u \in DOMAIN holds \cup {ev.t} |-> IF u = ev.t THEN ev.d ELSE holds[u]]
             /\ (ev.d <= 0 => Report("C18 create handed out a non-positive descriptor"))
             /\ (\E u \in DOMAIN holds : u # ev.t /\ holds[u] = ev.d => Report("C18 two live instances share a descriptor"))
             /\ (ev.d = 1 /\ shared1 => Report("C18 two live instances share a descriptor"))
             /\ (~skip /\ ev.d # want[ev.t] => PrintT("DRIFT " \o ToString(l)))
        [] ev.e = "End" ->
             /\ UNCHANGED <<vars, skip, holds, shared1, skip0>> /\ Bump(3)
             /\ (~skip /\ ((\E t \in All : pc[t] \notin {"done", "c_gf0", "l_lock"}) \/ rwW # 0 \/ rwR # {} \/ gfMu # 0)
                    => PrintT("DRIFT " \o ToString(l)) /\ Bump(4))
        \* the scheduler could not replay the model's schedule on this code (a thread did not reach its next yield point
        \* in time): with a changed step structure that is expected; a real deadlock hangs the free-running stress instead
        [] ev.e = "Diverge" -> UNCHANGED <<vars, skip, holds, shared1, skip0>> /\ PrintT("DRIFT " \o ToString(l)) /\ Bump(4)
        [] ev.e = "ResultErr" -> UNCHANGED <<vars, skip, holds, shared1, skip0>> /\ Report("C18 a thread's result differs from the sequential result")
        [] OTHER -> UNCHANGED <<vars, skip, holds, shared1, skip0>>
TSpec == TInit /\ [][TNext]_tvars
Accepted == /\ PrintT("COUNTS " \o ToJson([i \in 1..6 |-> TLCGet(i)]))
            /\ TLCGet("stats").diameter = Len(Tr) + 1
=============================================================================
