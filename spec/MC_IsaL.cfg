CONSTANTS NMax = 7
INIT Init
NEXT Next
INVARIANTS InvExact InvCauchyMDS Singular
CHECK_DEADLOCK FALSE
