INIT Init
NEXT Next
INVARIANTS InvHeader InvTwin InvCorrupt InvSizes
CHECK_DEADLOCK FALSE
