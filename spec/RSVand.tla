------------------------------- MODULE RSVand -------------------------------
(* The built-in Reed-Solomon Vandermonde code (C04, C03):                     *)
(*  - the canonical closed form  Coef(k,r,j) = L_j(r) / L_j(k),               *)
(*        L_j(x) = prod_{i<k, i#j} (x xor i)   over GF(2^16), poly 0x1100b;   *)
(*  - a transcription of what the code computes: make_systematic_matrix       *)
(*    (column reduction of the Vandermonde matrix on the points 0..n-1 and    *)
(*    normalisation of the first parity row), create_decoding_matrix,         *)
(*    Gauss-Jordan inversion, decode rows, reconstruct's parity-row           *)
(*    substitution  (src/builtin/rs_vand/liberasurecode_rs_vand.c).           *)
EXTENDS GF16, LinAlg

L(k, j, x) == FoldLeft(LAMBDA acc, i : IF i = j THEN acc ELSE GfMul(acc, x ^^ i), 1, [i \in 1..k |-> i-1])
Coef(k, r, j) == GfMul(L(k, j, r), GfInv(L(k, j, k)))
\* generator row of fragment x (0-based) as a length-k sequence
GenRow(k, x) == [j \in 1..k |-> IF x < k THEN (IF j = x + 1 THEN 1 ELSE 0) ELSE Coef(k, x, j-1)]
Gen(k, m) == [x \in 1..(k+m) |-> GenRow(k, x-1)]

\* ---- transcription of make_systematic_matrix ----
Pow(i, e) == FoldLeft(LAMBDA acc, q : GfMul(acc, i), 1, [q \in 1..e |-> q])
VandRow(k, i) == IF i = 0 THEN [j \in 1..k |-> IF j = 1 THEN 1 ELSE 0]
                 ELSE LET step(acc, q) == Append(acc, GfMul(acc[Len(acc)], i))
                      IN IF k = 1 THEN <<1>> ELSE FoldLeft(step, <<1>>, [q \in 1..(k-1) |-> q])
Vand(k, m) == [x \in 1..(k+m) |-> VandRow(k, x-1)]
\* one elimination step for row/column i (0-based i in 1..k-1); swapped records whether a row swap was needed
ElimStep(acc, i, k, n) ==
   LET M == acc.M
       cand == {r \in (i+1)..n : M[r][i+1] # 0}          \* rows (1-based) at or below i with a non-zero entry in column i
   IN IF cand = {} THEN [acc EXCEPT !.ok = FALSE]
      ELSE LET nr == Min(cand)
               M1 == IF nr = i + 1 THEN M ELSE [M EXCEPT ![i+1] = M[nr], ![nr] = M[i+1]]
               d == M1[i+1][i+1]
               dinv == GfInv(d)
               \* col_mult(column i by 1/d)
               M2 == IF d = 1 THEN M1 ELSE [r \in 1..n |-> [M1[r] EXCEPT ![i+1] = GfMul(M1[r][i+1], dinv)]]
               \* for every other column j with a non-zero entry in row i: column j += column i * M2[i][j]
               rowi == M2[i+1]
               M3 == [r \in 1..n |-> [j \in 1..k |-> IF j = i + 1 \/ rowi[j] = 0 THEN M2[r][j]
                                                       ELSE M2[r][j] ^^ GfMul(M2[r][i+1], rowi[j])]]
           IN TLCEval([ok |-> acc.ok, swapped |-> acc.swapped \/ nr # i + 1, M |-> M3])
Reduced(k, m) == FoldLeft(LAMBDA acc, i : ElimStep(acc, i, k, k + m),
                          [ok |-> TRUE, swapped |-> FALSE, M |-> Vand(k, m)], [i \in 1..(k-1) |-> i])
\* first parity row normalised to all ones: parity sub-column i multiplied by 1/M[k][i]
Systematic(k, m) ==
   LET R == Reduced(k, m)  M == R.M  n == k + m
       inv == [j \in 1..k |-> IF M[k+1][j] = 1 THEN 1 ELSE GfInv(M[k+1][j])]
   IN [ok |-> R.ok /\ \A j \in 1..k : M[k+1][j] # 0, swapped |-> R.swapped,
       M |-> [r \in 1..n |-> IF r <= k THEN M[r] ELSE [j \in 1..k |-> IF M[k+1][j] = 1 THEN M[r][j] ELSE GfMul(M[r][j], inv[j])]]]

\* ---- decode / reconstruct algebra over the closed form ----
FirstKAvail(k, n, missing) == SubSeq(SetToSortSeq((0..(n-1)) \ missing, <), 1, k)
DecMatrix(k, n, missing) == LET f == FirstKAvail(k, n, missing) IN [r \in 1..k |-> GenRow(k, f[r])]
RsInvertible(k, m, missing) == Invertible(DecMatrix(k, k+m, missing), k, GfMul, GfInv)
\* any k rows are independent
MDS(k, m) == \A S \in SUBSET (0..(k+m-1)) : Cardinality(S) = m => RsInvertible(k, m, S)

\* reconstruct's row for a destination (liberasurecode_rs_vand_reconstruct): combination of the first k available
ReconRow(k, m, missing, dest) ==
   LET n == k + m
       inv == MatInverse(DecMatrix(k, n, missing), k, GfMul, GfInv)
       availData == SetToSortSeq((0..(k-1)) \ missing, <)
       base == [j \in 1..k |-> IF j <= Len(availData) THEN GenRow(k, dest)[availData[j] + 1] ELSE 0]
       missData == SetToSortSeq(missing \cap (0..(k-1)), <)
   IN IF dest < k THEN inv[dest + 1]
      ELSE FoldLeft(LAMBDA row, d : [j \in 1..k |-> row[j] ^^ GfMul(GenRow(k, dest)[d + 1], inv[d + 1][j])], base, missData)
\* applying a row to the first k available fragments gives this combination of the data symbols
Applied(k, m, missing, row) ==
   LET D == DecMatrix(k, k+m, missing)
   IN [c \in 1..k |-> FoldLeft(LAMBDA a, j : a ^^ GfMul(row[j], D[j][c]), 0, [j \in 1..k |-> j])]
ReconExact(k, m, missing, dest) == Applied(k, m, missing, ReconRow(k, m, missing, dest)) = GenRow(k, dest)
=============================================================================
