INIT Init
NEXT Next
