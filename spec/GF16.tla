-------------------------------- MODULE GF16 --------------------------------
(* GF(2^16) with the primitive polynomial 0x1100b (rs_galois.c PRIM_POLY):   *)
(* carry-less shift-and-reduce multiply, inverse by exponentiation a^(2^16-2)*)
(* -- independent of the library's log/antilog tables.                        *)
EXTENDS Integers, Sequences, SequencesExt, Bitwise, TLC
RECURSIVE GfMulR(_,_,_)
GfMulR(a, b, acc) == IF b = 0 THEN acc ELSE
    LET acc2 == IF b % 2 = 1 THEN acc ^^ a ELSE acc
        a2 == a * 2
        a3 == IF a2 >= 65536 THEN a2 ^^ 69643 ELSE a2          \* 69643 = 0x1100b
    IN GfMulR(a3, b \div 2, acc2)
GfMul(a, b) == IF a = 0 \/ b = 0 THEN 0 ELSE GfMulR(a, b, 0)
GfSq(a) == GfMul(a, a)
\* a^(2^16-2): the exponent 0xFFFE has one-bits 1..15
GfInv(a) == IF a = 0 THEN 0 ELSE
            FoldLeft(LAMBDA acc, i : LET sq == GfSq(acc[2]) IN << GfMul(acc[1], sq), sq >>,
                     <<1, a>>, [i \in 1..15 |-> i])[1]
=============================================================================
