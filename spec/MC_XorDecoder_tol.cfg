CONSTANTS MaxE = 3
 Collect = FALSE
INIT Init
NEXT Next
INVARIANTS InvDistance InvTol InvRecon
CHECK_DEADLOCK FALSE
