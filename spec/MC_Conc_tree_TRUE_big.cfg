CONSTANTS Threads = {1, 2, 3}
 SharedUsers = {4, 5}
 Nodes = {1, 2, 3}
 Pre = TRUE
 Safe <- TreeSafe
SPECIFICATION HSpec
VIEW hview
INVARIANTS NoBad UniqueDesc NoRace
CHECK_DEADLOCK FALSE
