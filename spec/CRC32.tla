------------------------------- MODULE CRC32 -------------------------------
(* CRC-32 (reflected polynomial 0xEDB88320) defined bit by bit -- independent *)
(* of zlib and of the library's crc32_tab -- and the historical variant whose *)
(* right shift of the running value sign-extends (liberasurecode_crc32_alt).  *)
(* 32-bit words are <<hi16, lo16>> because TLC integers are 32-bit signed.    *)
EXTENDS Integers, Sequences, SequencesExt, Bitwise, TLC
PolyHi == 60856     \* 0xEDB8
PolyLo == 33568     \* 0x8320
Shr1(w) == << w[1] \div 2, (w[2] \div 2) + (IF w[1] % 2 = 1 THEN 32768 ELSE 0) >>
XorW(a, b) == << a[1] ^^ b[1], a[2] ^^ b[2] >>
RECURSIVE Step8(_,_)
Step8(w, n) == IF n = 0 THEN w ELSE
   LET s == Shr1(w) IN Step8(IF w[2] % 2 = 1 THEN XorW(s, <<PolyHi, PolyLo>>) ELSE s, n - 1)
ShrL8(w) == << w[1] \div 256, (w[2] \div 256) + (w[1] % 256) * 256 >>
\* arithmetic shift: the top byte is filled with the sign bit
ShrA8(w) == LET s == ShrL8(w) IN << s[1] + (IF w[1] >= 32768 THEN 65280 ELSE 0), s[2] >>
Upd(w, b)  == XorW(Step8(<<0, (w[2] ^^ b) % 256>>, 8), ShrL8(w))
UpdA(w, b) == XorW(Step8(<<0, (w[2] ^^ b) % 256>>, 8), ShrA8(w))
Fin(r) == << 65535 - r[1], 65535 - r[2] >>
Crc32(s)    == Fin(FoldLeft(Upd,  <<65535, 65535>>, s))
Crc32Alt(s) == Fin(FoldLeft(UpdA, <<65535, 65535>>, s))
\* "123456789" -> 0xCBF43926
ASSUME Crc32(<<49,50,51,52,53,54,55,56,57>>) = <<52212, 14630>>
=============================================================================
