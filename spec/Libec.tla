-------------------------------- MODULE Libec --------------------------------
(* The public API of liberasurecode as a state machine over its process-wide  *)
(* state (C13, C14, C16, C17):                                                 *)
(*   live   registry: descriptor -> configuration   (active_instances)         *)
(*   next   the descriptor counter                  (next_backend_desc)        *)
(*   owedE  encode outputs the caller still has to hand back (desc, stripe id) *)
(*   owedD  decode outputs the caller still has to hand back (desc, slot id)   *)
(* gfRef (number of holders of the shared GF(2^16) tables) is derived.         *)
(* Every public entry point is one action, split into                          *)
(*   Expect*  : what the call must return in this state ("ok", "neg", "any")   *)
(*   *Effect  : the state after the call, given what it returned               *)
(* The model-checking specification (MC_Libec) explores these actions over     *)
(* small constants; the trace specification (TraceLibec) applies exactly the   *)
(* same operators to the events recorded from the real library.                *)
EXTENDS Integers, Sequences, FiniteSets, FiniteSetsExt, TLC, XorTables

CONSTANTS MaxInt, MinInt      \* range of the C int that counts descriptors (tiny in model checking so that it wraps)

Executable == {0, 3, 4, 6, 7}  \* backends whose plug-in can be opened in this sandbox (the others: -EBACKENDNOTAVAIL)
BackendsMax == 9

\* ---- configurations: [be, k, m, hd, w, ct, null (args pointer NULL)] ----
MustRefuseCreate(c) ==
   \/ c.null \/ c.be < 0 \/ c.be >= BackendsMax \/ c.be \notin Executable
   \/ c.k < 1 \/ c.m < 0 \/ c.k + c.m > 32
   \/ (c.be = 3 /\ ~XorSupported(c.k, c.m, c.hd))
   \/ (c.be \in {4, 7} /\ c.w > 0 /\ c.w < 8)
MustAcceptCreate(c) ==
   /\ ~MustRefuseCreate(c) /\ c.m >= 1
   /\ (c.be \in {4, 7} => c.w \in {0, 8})

\* ---- descriptor allocation: liberasurecode_backend_alloc_desc ----
\* ++next wraps like a two's-complement int; non-positive values are skipped to 1; live values are skipped
Inc(n) == IF n = MaxInt THEN MinInt ELSE n + 1
RECURSIVE AllocFrom(_, _)
AllocFrom(n, L) == LET c == IF Inc(n) <= 0 THEN 1 ELSE Inc(n) IN IF c \in L THEN AllocFrom(c, L) ELSE c

Live(st) == DOMAIN st.live
GfRef(st) == Cardinality({d \in Live(st) : st.live[d].be = 6})
InitState == [live |-> << >>, next |-> 0, owedE |-> {}, owedD |-> {}]
RestrictTo(f, S) == [x \in S |-> f[x]]

\* ---- create / destroy ----
ExpectCreate(st, c, fired) ==
   IF fired \/ MustRefuseCreate(c) THEN [cls |-> "neg", d |-> 0]
   ELSE [cls |-> IF MustAcceptCreate(c) THEN "ok" ELSE "any", d |-> AllocFrom(st.next, Live(st))]
CreateEffect(st, c, d) ==
   IF d <= 0 THEN st
   ELSE [st EXCEPT !.live = [x \in Live(st) \cup {d} |-> IF x = d THEN [be |-> c.be, k |-> c.k, m |-> c.m, hd |-> c.hd, ct |-> c.ct] ELSE st.live[x]],
                   !.next = d]
ExpectDestroy(st, x) == IF x \in Live(st) THEN "ok" ELSE "neg"
DestroyEffect(st, x, rc) == IF rc = 0 /\ x \in Live(st) THEN [st EXCEPT !.live = RestrictTo(st.live, Live(st) \ {x})] ELSE st

\* ---- encode / decode and their cleanups (ownership) ----
ExpectEncode(st, x, nullmask, fired) == IF x \in Live(st) /\ nullmask = 0 /\ ~fired THEN "ok" ELSE "neg"
EncodeEffect(st, x, T, rc) == IF rc = 0 THEN [st EXCEPT !.owedE = @ \cup {<<x, T>>}] ELSE st
ExpectEncClean(st, x) == IF x \in Live(st) THEN "ok" ELSE "neg"
EncCleanEffect(st, x, T, rc, released) == IF rc = 0 /\ released THEN [st EXCEPT !.owedE = @ \ {<<x, T>>}] ELSE st
\* tol: the supplied fragments are within the code's tolerance; same: the instance has the stripe's configuration
ExpectDecode(st, x, nullmask, flc, nfrag, nidx, same, tol, fired) ==
   IF x \notin Live(st) \/ nullmask # 0 \/ flc # 0 \/ nfrag < st.live[x].k \/ fired THEN "neg"
   ELSE IF same /\ tol /\ nfrag = nidx THEN "ok" ELSE "any"
DecodeEffect(st, x, U, rc) == IF rc = 0 THEN [st EXCEPT !.owedD = @ \cup {<<x, U>>}] ELSE st
ExpectDecClean(st, x) == IF x \in Live(st) THEN "ok" ELSE "neg"
DecCleanEffect(st, x, U, rc, released) == IF rc = 0 /\ released THEN [st EXCEPT !.owedD = {p \in @ : p[2] # U}] ELSE st
ExpectRecon(st, x, nullmask, flc, dest, nfrag, nidx, same, tol, fired) ==
   IF x \notin Live(st) \/ nullmask # 0 \/ flc # 0 \/ fired THEN "neg"
   ELSE IF dest < 0 \/ dest >= st.live[x].k + st.live[x].m THEN "neg"
   ELSE IF same /\ tol /\ nfrag = nidx THEN "ok" ELSE "any"
ExpectSimple(st, x, nullmask, fired) == IF x \notin Live(st) \/ nullmask # 0 \/ fired THEN "neg" ELSE "any"

\* ---- invariants of the state machine ----
DescPositiveUnique(st) == \A d \in Live(st) : d >= 1 /\ d <= MaxInt
OwedOnlyOnLive(st) == \A p \in st.owedE \cup st.owedD : p[1] \in Live(st)
Matches(cls, rc) == CASE cls = "ok" -> rc >= 0 [] cls = "neg" -> rc < 0 [] OTHER -> TRUE
=============================================================================
