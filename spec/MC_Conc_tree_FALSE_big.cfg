CONSTANTS Threads = {1, 2, 3}
 SharedUsers = {}
 Nodes = {1, 2, 3}
 Pre = FALSE
 Safe <- TreeSafe
SPECIFICATION HSpec
VIEW hview
INVARIANTS NoBad UniqueDesc NoRace
CHECK_DEADLOCK FALSE
