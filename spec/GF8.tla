-------------------------------- MODULE GF8 --------------------------------
(* GF(2^8) with the polynomial 0x11d (ISA-L's field): shift-and-reduce       *)
(* multiply, inverse by exponentiation a^(2^8-2).  No tables: TLC re-evaluates*)
(* table-valued definitions inside operators, the 8-step recursion is cheap. *)
EXTENDS Integers, Sequences, SequencesExt, Bitwise, TLC
RECURSIVE G8MulR(_,_,_)
G8MulR(a, b, acc) == IF b = 0 THEN acc ELSE
    LET acc2 == IF b % 2 = 1 THEN acc ^^ a ELSE acc
        a2 == a * 2
        a3 == IF a2 >= 256 THEN a2 ^^ 285 ELSE a2
    IN G8MulR(a3, b \div 2, acc2)
G8Mul(a, b) == IF a = 0 \/ b = 0 THEN 0 ELSE G8MulR(a, b, 0)
G8Sq(a) == G8Mul(a, a)
\* a^254 = a^(2+4+...+128): square-and-multiply over the 7 one-bits 1..7 of the exponent 0xFE
G8Inv(a) == IF a = 0 THEN 0 ELSE
            FoldLeft(LAMBDA acc, i : LET sq == G8Sq(acc[2]) IN << G8Mul(acc[1], sq), sq >>,
                     <<1, a>>, [i \in 1..7 |-> i])[1]
RECURSIVE G8Pow(_,_)
G8Pow(a, e) == IF e = 0 THEN 1 ELSE G8Mul(a, G8Pow(a, e - 1))
=============================================================================
