CONSTANTS MaxInt = 5
 MinInt <- MinIntModel
 Slots = {1, 2, 3}
 MaxDepth = 60
 WithApi = TRUE
 EmitPaths = FALSE
 WithFaults = TRUE
SPECIFICATION Spec
VIEW view
ACTION_CONSTRAINT Emit
INVARIANTS InvDesc InvOwed
PROPERTIES FailedCallChangesNothing FreshDesc FaultIsError
CHECK_DEADLOCK FALSE
