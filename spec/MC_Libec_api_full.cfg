CONSTANTS MaxInt = 5
 MinInt <- MinIntModel
 Slots = {1, 2, 3}
 MaxDepth = 60
 WithApi = TRUE
 EmitPaths = FALSE
SPECIFICATION Spec
VIEW view
ACTION_CONSTRAINT Emit
INVARIANTS InvDesc InvOwed
PROPERTIES FailedCallChangesNothing FreshDesc
CHECK_DEADLOCK FALSE
